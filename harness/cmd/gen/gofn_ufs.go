package main

// GenUfsOflags.v: ufs/util.go's open-flag mapping translated by gofn.go.  The function is unexported:
// it is the package-level function of package ufs from the library's Flag type to int.

import (
	"fmt"
	"go/ast"
	"go/importer"
	"go/parser"
	"go/token"
	"go/types"
	"os"
	"path/filepath"
	"sort"
	"strings"
)

func init() { register("GenUfsOflags.v", genUfsOflags) }

type p9pImporter struct {
	own  *types.Package
	rest types.Importer
}

func (i p9pImporter) Import(path string) (*types.Package, error) {
	if path == i.own.Path() {
		return i.own, nil
	}
	return i.rest.Import(path)
}

func genUfsOflags(c *Ctx) (string, error) {
	dir := filepath.Join(c.Repo, "ufs")
	fset := token.NewFileSet()
	pkgs, err := parser.ParseDir(fset, dir, func(fi os.FileInfo) bool {
		n := fi.Name()
		return !strings.HasSuffix(n, "_test.go") && !strings.HasPrefix(n, "verif_hooks") && !strings.HasSuffix(n, "_darwin.go")
	}, 0)
	if err != nil {
		return "", err
	}
	p, ok := pkgs["ufs"]
	if !ok {
		return "", fmt.Errorf("package ufs not found in %s", dir)
	}
	var names []string
	for n := range p.Files {
		names = append(names, n)
	}
	sort.Strings(names)
	var files []*ast.File
	for _, n := range names {
		files = append(files, p.Files[n])
	}
	info := &types.Info{Types: map[ast.Expr]types.TypeAndValue{}, Defs: map[*ast.Ident]types.Object{}, Uses: map[*ast.Ident]types.Object{}}
	conf := types.Config{Importer: p9pImporter{c.Pkg, importer.ForCompiler(fset, "source", nil)}, Error: func(err error) {}}
	pkg, _ := conf.Check(c.Pkg.Path()+"/ufs", fset, files, info)
	flagT := c.Pkg.Scope().Lookup("Flag")
	if flagT == nil {
		return "", fmt.Errorf("type Flag not found")
	}
	var found []*ast.FuncDecl
	for _, f := range files {
		for _, d := range f.Decls {
			fd, ok := d.(*ast.FuncDecl)
			if !ok || fd.Recv != nil || fd.Body == nil || info.Defs[fd.Name] == nil {
				continue
			}
			sig, ok := info.Defs[fd.Name].Type().(*types.Signature)
			if !ok || sig.Params().Len() != 1 || sig.Results().Len() != 1 {
				continue
			}
			if types.Identical(sig.Params().At(0).Type(), flagT.Type()) && types.Identical(sig.Results().At(0).Type(), types.Typ[types.Int]) {
				found = append(found, fd)
			}
		}
	}
	if len(found) != 1 {
		return "", fmt.Errorf("expected exactly one function func(p9p.Flag) int in package ufs, found %d", len(found))
	}
	t := &fnTr{info: info, pkg: pkg, prefix: "gen_", funcs: map[types.Object]string{}, lib: stdLib}
	s, err := t.function(found[0])
	if err != nil {
		return "", err
	}
	s = strings.ReplaceAll(s, "gen_"+found[0].Name.Name, "gen_oflags")
	var b strings.Builder
	b.WriteString("From Coq Require Import List NArith ZArith Bool.\nFrom P9 Require Import Base.GoRt.\nImport ListNotations.\n\n")
	fmt.Fprintf(&b, "(* ufs/util.go, func %s, translated by harness/cmd/gen/gofn.go; the os.O_* constants are the values\n   go/types computes for this platform (linux). *)\n\n", found[0].Name.Name)
	b.WriteString(s)
	return b.String(), nil
}
