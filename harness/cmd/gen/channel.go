package main

import (
	"fmt"
	"go/ast"
	"strings"
)

// GenChannel.v: structural facts of channel.go the channel model relies on:
//   - gen_truncate_arms : the message types special-cased by maybeTruncate's type switch, in order
//     (every other message takes the default arm: sent unmodified or refused with an overflow error)
//   - gen_truncate_has_default : whether the switch has a default arm
//   - gen_readfcall_truncates / gen_writefcall_truncates : ReadFcall and WriteFcall call maybeTruncate
func init() { register("GenChannel.v", genChannel) }

func callsMethod(fd *ast.FuncDecl, name string) bool {
	found := false
	ast.Inspect(fd.Body, func(n ast.Node) bool {
		if c, ok := n.(*ast.CallExpr); ok {
			if s, ok := c.Fun.(*ast.SelectorExpr); ok && s.Sel.Name == name {
				found = true
			}
		}
		return !found
	})
	return found
}

func genChannel(c *Ctx) (string, error) {
	fd := c.FuncDecl("channel", "maybeTruncate")
	if fd == nil {
		return "", fmt.Errorf("method channel.maybeTruncate not found")
	}
	var ts *ast.TypeSwitchStmt
	for _, st := range fd.Body.List {
		if t, ok := st.(*ast.TypeSwitchStmt); ok {
			ts = t
		}
	}
	if ts == nil {
		return "", fmt.Errorf("maybeTruncate: no top-level type switch")
	}
	var arms []string
	hasDefault := false
	for _, st := range ts.Body.List {
		cc := st.(*ast.CaseClause)
		if cc.List == nil {
			hasDefault = true
			continue
		}
		for _, e := range cc.List {
			tv, ok := c.Info.Types[e]
			if !ok {
				return "", fmt.Errorf("maybeTruncate: untyped case expression")
			}
			arms = append(arms, typeName(tv.Type))
		}
	}
	rf := c.FuncDecl("channel", "ReadFcall")
	wf := c.FuncDecl("channel", "WriteFcall")
	if rf == nil || wf == nil {
		return "", fmt.Errorf("channel.ReadFcall / WriteFcall not found")
	}
	var b strings.Builder
	b.WriteString("From Coq Require Import List String.\nImport ListNotations.\nOpen Scope string_scope.\n\n")
	fmt.Fprintf(&b, "Definition gen_truncate_arms : list string := %s.\n", coqStrs(arms))
	fmt.Fprintf(&b, "Definition gen_truncate_has_default : bool := %v.\n", hasDefault)
	fmt.Fprintf(&b, "Definition gen_readfcall_truncates : bool := %v.\n", callsMethod(rf, "maybeTruncate"))
	fmt.Fprintf(&b, "Definition gen_writefcall_truncates : bool := %v.\n", callsMethod(wf, "maybeTruncate"))
	return b.String(), nil
}
