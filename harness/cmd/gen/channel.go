package main

import (
	"fmt"
	"go/ast"
	"strings"
)

// GenChannel.v: structural facts of channel.go the channel model relies on:
//   - gen_truncate_arms : the message types special-cased by maybeTruncate's type switch, in order
//     (every other message takes the default arm: sent unmodified or refused with an overflow error)
//   - gen_truncate_has_default : whether the switch has a default arm
//   - gen_readfcall_truncates / gen_writefcall_truncates : ReadFcall and WriteFcall call maybeTruncate
func init() { register("GenChannel.v", genChannel) }

func callsMethod(fd *ast.FuncDecl, name string) bool {
	found := false
	ast.Inspect(fd.Body, func(n ast.Node) bool {
		if c, ok := n.(*ast.CallExpr); ok {
			if s, ok := c.Fun.(*ast.SelectorExpr); ok && s.Sel.Name == name {
				found = true
			}
		}
		return !found
	})
	return found
}

// recvName returns the receiver type name of a method declaration ("" for functions).
func recvName(fd *ast.FuncDecl) string {
	if fd.Recv == nil || len(fd.Recv.List) != 1 {
		return ""
	}
	t := fd.Recv.List[0].Type
	if s, ok := t.(*ast.StarExpr); ok {
		t = s.X
	}
	if id, ok := t.(*ast.Ident); ok {
		return id.Name
	}
	return ""
}

// findTruncate locates the truncation method by what it is, not by what it is called: the one
// method of channel (other than ReadFcall/WriteFcall) whose body has a top-level type switch
// with an arm for MessageTread.
func findTruncate(c *Ctx) (*ast.FuncDecl, *ast.TypeSwitchStmt, error) {
	var hit *ast.FuncDecl
	var hitTS *ast.TypeSwitchStmt
	for _, f := range c.Files {
		for _, d := range f.Decls {
			fd, ok := d.(*ast.FuncDecl)
			if !ok || fd.Body == nil || recvName(fd) != "channel" || fd.Name.Name == "ReadFcall" || fd.Name.Name == "WriteFcall" {
				continue
			}
			for _, st := range fd.Body.List {
				ts, ok := st.(*ast.TypeSwitchStmt)
				if !ok {
					continue
				}
				for _, a := range ts.Body.List {
					for _, e := range a.(*ast.CaseClause).List {
						if tv, ok := c.Info.Types[e]; ok && strings.TrimPrefix(typeName(tv.Type), "*") == "MessageTread" {
							if hit != nil && hit != fd {
								return nil, nil, fmt.Errorf("two methods of channel switch on MessageTread: %s and %s", hit.Name.Name, fd.Name.Name)
							}
							hit, hitTS = fd, ts
						}
					}
				}
			}
		}
	}
	if hit == nil {
		return nil, nil, fmt.Errorf("no method of channel has a top-level type switch with a MessageTread arm (the truncation step)")
	}
	return hit, hitTS, nil
}

func genChannel(c *Ctx) (string, error) {
	fd, ts, err := findTruncate(c)
	if err != nil {
		return "", err
	}
	var arms []string
	hasDefault := false
	for _, st := range ts.Body.List {
		cc := st.(*ast.CaseClause)
		if cc.List == nil {
			hasDefault = true
			continue
		}
		for _, e := range cc.List {
			tv, ok := c.Info.Types[e]
			if !ok {
				return "", fmt.Errorf("maybeTruncate: untyped case expression")
			}
			arms = append(arms, typeName(tv.Type))
		}
	}
	rf := c.FuncDecl("channel", "ReadFcall")
	wf := c.FuncDecl("channel", "WriteFcall")
	if rf == nil || wf == nil {
		return "", fmt.Errorf("channel.ReadFcall / WriteFcall not found")
	}
	var b strings.Builder
	b.WriteString("From Coq Require Import List String.\nImport ListNotations.\nOpen Scope string_scope.\n\n")
	fmt.Fprintf(&b, "Definition gen_truncate_arms : list string := %s.\n", coqStrs(arms))
	fmt.Fprintf(&b, "Definition gen_truncate_has_default : bool := %v.\n", hasDefault)
	fmt.Fprintf(&b, "Definition gen_readfcall_truncates : bool := %v.\n", callsMethod(rf, fd.Name.Name))
	fmt.Fprintf(&b, "Definition gen_writefcall_truncates : bool := %v.\n", callsMethod(wf, fd.Name.Name))
	return b.String(), nil
}
