package main

import (
	"fmt"
	"go/ast"
	"go/constant"
	"go/token"
	"go/types"
)

// The goroutine structure Model/Flow.v abstracts, read off transport.go and
// serveconn.go by ROLE (part of GenDispatch.v, property C09).  Nothing here
// depends on the names of unexported types, methods, fields, channels or
// locals:
//
//	client transport  the concrete type behind the interface field of the client through which its call
//	                  methods make their round trip; its round-trip method; the channel field that method
//	                  select-sends the request on ("submit")
//	owner loop        the method of that type that ends in `for { select {…} }` with an arm receiving from submit
//	reader / writer   the goroutines the owner-loop method starts (`go func(){…}()` or `go x.m(…)`, looked
//	                  through one call level) that call ReadFcall / WriteFcall
//	server            the struct ServeConn builds that holds the Handler; its methods that call ReadFcall /
//	                  WriteFcall; the method that starts both with `go` and ends in the serve loop; the
//	                  goroutine started in the request arm that calls Handle
//
// Channels are identified by the object they are, followed through the
// parameters of the goroutine functions they are passed to.

type dspFact struct {
	name  string
	holds bool
}
type dspCap struct {
	name string
	cap  uint64
}
type dspFlow struct {
	ownerWrites bool
	facts       []dspFact
	caps        []dspCap
}

type dspGo struct {
	body *ast.BlockStmt
	pmap map[types.Object]types.Object // parameter of the goroutine function -> the object passed at the go statement
}

func (g *dspGo) resolve(o types.Object) types.Object {
	for k := 0; k < 4 && o != nil; k++ {
		n, ok := g.pmap[o]
		if !ok {
			break
		}
		o = n
	}
	return o
}

// dspGoBody: the body a go statement runs and how its parameters are bound.
func dspGoBody(c *Ctx, g *ast.GoStmt) *dspGo {
	out := &dspGo{pmap: map[types.Object]types.Object{}}
	var ft *ast.FuncType
	switch f := dspParen(g.Call.Fun).(type) {
	case *ast.FuncLit:
		out.body, ft = f.Body, f.Type
	default:
		fd := dspDeclOf(c, dspObj(c, g.Call.Fun))
		if fd == nil || fd.Body == nil {
			return nil
		}
		out.body, ft = fd.Body, fd.Type
		// the receiver of a method value x.m: receiver variable -> x
		if sel, ok := dspParen(g.Call.Fun).(*ast.SelectorExpr); ok {
			if r := dspRecvObj(c, fd); r != nil {
				if o := dspObj(c, sel.X); o != nil {
					out.pmap[r] = o
				}
			}
		}
	}
	ps := dspParamObjs(c, ft)
	for k, a := range g.Call.Args {
		if k < len(ps) && ps[k] != nil {
			if o := dspObj(c, a); o != nil {
				out.pmap[ps[k]] = o
			}
		}
	}
	return out
}

// dspCalls: does n contain a call of a method/function with this (exported API) name?
func dspCalls(n ast.Node, name string) bool {
	found := false
	ast.Inspect(n, func(x ast.Node) bool {
		if call, ok := x.(*ast.CallExpr); ok {
			if s, ok := dspParen(call.Fun).(*ast.SelectorExpr); ok && s.Sel.Name == name {
				found = true
			}
		}
		return true
	})
	return found
}

// dspSelectSendChans: the channel objects of all `case ch <- v:` arms inside n.
func dspSelectSendChans(c *Ctx, n ast.Node) []types.Object {
	var out []types.Object
	ast.Inspect(n, func(x ast.Node) bool {
		if cc, ok := x.(*ast.CommClause); ok && cc.Comm != nil {
			if snd, ok := cc.Comm.(*ast.SendStmt); ok {
				if o := dspObj(c, snd.Chan); o != nil {
					out = append(out, o)
				}
			}
		}
		return true
	})
	return out
}

func dspCommRecvChan(c *Ctx, cc *ast.CommClause) types.Object {
	var e ast.Expr
	switch x := cc.Comm.(type) {
	case *ast.AssignStmt:
		if len(x.Rhs) == 1 {
			e = x.Rhs[0]
		}
	case *ast.ExprStmt:
		e = x.X
	}
	if e == nil {
		return nil
	}
	u, ok := dspParen(e).(*ast.UnaryExpr)
	if !ok || u.Op != token.ARROW {
		return nil
	}
	return dspObj(c, u.X)
}

// dspRecvArm: the arm of sel that receives from the channel object ch (seen through resolve).
func dspRecvArm(c *Ctx, sel *ast.SelectStmt, ch types.Object, resolve func(types.Object) types.Object) *ast.CommClause {
	if ch == nil {
		return nil
	}
	for _, cl := range sel.Body.List {
		cc := cl.(*ast.CommClause)
		if cc.Comm == nil {
			continue
		}
		if o := dspCommRecvChan(c, cc); o != nil && resolve(o) == ch {
			return cc
		}
	}
	return nil
}

func dspID(o types.Object) types.Object { return o }

// dspChanSources: o itself plus every channel variable assigned to o inside body
// (`out = writes`, `out, next = writes, pending[0]`): a select may send on a local
// that is either nil or one particular channel.
func dspChanSources(c *Ctx, body ast.Node, o types.Object) []types.Object {
	out := []types.Object{o}
	ast.Inspect(body, func(x ast.Node) bool {
		as, ok := x.(*ast.AssignStmt)
		if !ok || len(as.Lhs) != len(as.Rhs) {
			return true
		}
		for k, l := range as.Lhs {
			if dspObj(c, l) != o {
				continue
			}
			if ro := dspObj(c, as.Rhs[k]); ro != nil && ro != o {
				if _, isChan := ro.Type().Underlying().(*types.Chan); isChan {
					out = append(out, ro)
				}
			}
		}
		return true
	})
	return out
}

// dspLoopSelect: the body's last statement is `for { … select {…} … }` (possibly labelled); returns the select.
func dspLoopSelect(body *ast.BlockStmt) *ast.SelectStmt {
	if body == nil || len(body.List) == 0 {
		return nil
	}
	var loop *ast.ForStmt
	for _, st := range body.List {
		if ls, ok := st.(*ast.LabeledStmt); ok {
			st = ls.Stmt
		}
		if l, ok := st.(*ast.ForStmt); ok && l.Cond == nil && l.Init == nil && l.Post == nil {
			loop = l
		}
	}
	if loop == nil {
		return nil
	}
	var sel *ast.SelectStmt
	for _, st := range loop.Body.List {
		if s, ok := st.(*ast.SelectStmt); ok {
			if sel != nil {
				return nil
			}
			sel = s
		}
	}
	return sel
}

// dspChanCap: the capacity with which the channel object (a local, or a struct field set in a keyed literal) is made.
func dspChanCap(c *Ctx, ch types.Object) (uint64, bool) {
	var capv uint64
	found := false
	rec := func(call ast.Expr) {
		cx, ok := dspParen(call).(*ast.CallExpr)
		if !ok || !dspBuiltin(c, cx.Fun, "make") || len(cx.Args) == 0 {
			return
		}
		if tv, ok := c.Info.Types[cx.Args[0]]; !ok || !tv.IsType() {
			return
		} else if _, isChan := tv.Type.Underlying().(*types.Chan); !isChan {
			return
		}
		v := uint64(0)
		if len(cx.Args) == 2 {
			x, ok := dspConstVal(c, cx.Args[1])
			if !ok || x < 0 {
				return
			}
			v = uint64(x)
		}
		capv, found = v, true
	}
	for _, f := range c.Files {
		ast.Inspect(f, func(x ast.Node) bool {
			switch y := x.(type) {
			case *ast.AssignStmt:
				for k, l := range y.Lhs {
					if k < len(y.Rhs) && len(y.Lhs) == len(y.Rhs) && dspObj(c, l) == ch {
						rec(y.Rhs[k])
					}
				}
			case *ast.ValueSpec:
				for k, n := range y.Names {
					if k < len(y.Values) && c.Info.Defs[n] == ch {
						rec(y.Values[k])
					}
				}
			case *ast.KeyValueExpr:
				if id, ok := y.Key.(*ast.Ident); ok && c.Info.Uses[id] == ch {
					rec(y.Value)
				}
			}
			return true
		})
	}
	return capv, found
}

var _ = constant.Int

func dspFlowFacts(c *Ctx, clientT, msgT *types.Named) (*dspFlow, error) {
	ff := &dspFlow{}
	add := func(name string, holds bool) { ff.facts = append(ff.facts, dspFact{name, holds}) }
	role := func(name string, ch types.Object) error {
		if ch == nil {
			return fmt.Errorf("flow: cannot identify the channel in the role %q", name)
		}
		v, ok := dspChanCap(c, ch)
		if !ok {
			return fmt.Errorf("flow: cannot find the make(chan …) of the channel in the role %q (%s)", name, ch.Name())
		}
		ff.caps = append(ff.caps, dspCap{name, v})
		return nil
	}

	// ---------------- client
	if clientT == nil {
		return nil, fmt.Errorf("flow: client type unknown")
	}
	cst, ok := clientT.Underlying().(*types.Struct)
	if !ok {
		return nil, fmt.Errorf("flow: the client is not a struct")
	}
	var rtIface *types.Interface
	var rtName string
	for k := 0; k < cst.NumFields(); k++ {
		it, ok := cst.Field(k).Type().Underlying().(*types.Interface)
		if !ok {
			continue
		}
		for j := 0; j < it.NumMethods(); j++ {
			if dspIsSendSig(it.Method(j).Type(), msgT) {
				rtIface, rtName = it, it.Method(j).Name()
			}
		}
	}
	if rtIface == nil {
		return nil, fmt.Errorf("flow: the client has no field of an interface type with a round-trip method")
	}
	var transT *types.Named
	for _, n := range c.Pkg.Scope().Names() {
		tn, ok := c.Pkg.Scope().Lookup(n).(*types.TypeName)
		if !ok {
			continue
		}
		named, ok := tn.Type().(*types.Named)
		if !ok {
			continue
		}
		if _, isI := named.Underlying().(*types.Interface); isI {
			continue
		}
		if types.Implements(types.NewPointer(named), rtIface) || types.Implements(named, rtIface) {
			if transT != nil {
				return nil, fmt.Errorf("flow: two concrete transports (%s, %s)", transT.Obj().Name(), named.Obj().Name())
			}
			transT = named
		}
	}
	if transT == nil {
		return nil, fmt.Errorf("flow: no concrete type implements the client's transport interface")
	}
	var rtDecl *ast.FuncDecl
	methods := dspMethodsOf(c, transT)
	for _, m := range methods {
		if m.Name.Name == rtName {
			rtDecl = m
		}
	}
	if rtDecl == nil {
		return nil, fmt.Errorf("flow: round-trip method not found on %s", transT.Obj().Name())
	}
	// submit: the field of the transport the round-trip method select-sends the request on
	var submit types.Object
	for _, o := range dspSelectSendChans(c, rtDecl.Body) {
		if v, ok := o.(*types.Var); ok && v.IsField() {
			if submit != nil && submit != o {
				return nil, fmt.Errorf("flow: the round-trip method select-sends on two fields")
			}
			submit = o
		}
	}
	if submit == nil {
		return nil, fmt.Errorf("flow: the round-trip method does not hand its request over with a select-send on a field of the transport")
	}
	// owner loop: the method that ends in for-select with an arm receiving from submit
	var owner *ast.FuncDecl
	var osel *ast.SelectStmt
	for _, m := range methods {
		if m == rtDecl {
			continue
		}
		if sel := dspLoopSelect(m.Body); sel != nil && dspRecvArm(c, sel, submit, dspID) != nil {
			if owner != nil {
				return nil, fmt.Errorf("flow: two methods of the transport loop over the submit channel")
			}
			owner, osel = m, sel
		}
	}
	if owner == nil {
		return nil, fmt.Errorf("flow: no method of the transport ends in `for { select {…} }` with an arm taking requests from the round-trip method")
	}
	// goroutines started by the owner-loop method
	var reader, writer *dspGo
	for _, st := range owner.Body.List {
		g, ok := st.(*ast.GoStmt)
		if !ok {
			continue
		}
		gb := dspGoBody(c, g)
		if gb == nil {
			return nil, fmt.Errorf("flow: cannot see the body of a goroutine started by the owner-loop method (%s)", c.Fset.Position(g.Pos()))
		}
		if dspCalls(gb.body, "ReadFcall") {
			if reader != nil {
				return nil, fmt.Errorf("flow: two client goroutines call ReadFcall")
			}
			reader = gb
		}
		if dspCalls(gb.body, "WriteFcall") {
			if writer != nil {
				return nil, fmt.Errorf("flow: two client goroutines call WriteFcall")
			}
			writer = gb
		}
	}
	if reader == nil {
		return nil, fmt.Errorf("flow: the owner-loop method starts no goroutine that calls ReadFcall")
	}
	// replies: the channel the reader select-sends on and the owner loop receives from
	var replies types.Object
	var ra *ast.CommClause
	for _, o := range dspSelectSendChans(c, reader.body) {
		if arm := dspRecvArm(c, osel, reader.resolve(o), dspID); arm != nil {
			replies, ra = reader.resolve(o), arm
		}
	}
	add("client reader: after ReadFcall, hands the reply over with a select-send that the owner loop receives", replies != nil)
	add("owner loop: takes replies in its select", ra != nil)
	qa := dspRecvArm(c, osel, submit, dspID)
	add("owner loop: takes requests in its select", qa != nil)
	// waking the caller: a plain send, in the replies arm, on a field of the request
	var replyField types.Object
	if ra != nil {
		for _, st := range ra.Body {
			if snd, ok := st.(*ast.SendStmt); ok {
				if v, ok := dspObj(c, snd.Chan).(*types.Var); ok && v.IsField() {
					replyField = v
				}
			}
		}
	}
	add("owner loop: wakes the caller with a plain send on a channel field of the request", replyField != nil)
	// who writes
	inArm := func(cc *ast.CommClause) bool {
		for _, st := range cc.Body {
			if dspCalls(st, "WriteFcall") {
				return true
			}
		}
		return false
	}
	for _, cl := range osel.Body.List {
		cc := cl.(*ast.CommClause)
		if cc != qa && inArm(cc) {
			return nil, fmt.Errorf("flow: an arm of the owner loop other than the request arm calls WriteFcall (shape not modelled)")
		}
	}
	ff.ownerWrites = qa != nil && inArm(qa)
	if !ff.ownerWrites && writer == nil {
		return nil, fmt.Errorf("flow: neither the owner loop nor a goroutine it starts calls WriteFcall")
	}
	if err := role("caller.reply", replyField); err != nil {
		return nil, err
	}
	// the other channel fields of the request the owner loop sends on (errors): all must be buffered
	errCap, haveErr := uint64(0), false
	ast.Inspect(owner.Body, func(x ast.Node) bool {
		if _, isLit := x.(*ast.FuncLit); isLit {
			return false
		}
		if snd, ok := x.(*ast.SendStmt); ok {
			if v, ok := dspObj(c, snd.Chan).(*types.Var); ok && v.IsField() && types.Object(v) != replyField && types.Object(v) != submit {
				if cv, ok := dspChanCap(c, v); ok && (!haveErr || cv < errCap) {
					errCap, haveErr = cv, true
				}
			}
		}
		return true
	})
	if !haveErr {
		return nil, fmt.Errorf("flow: cannot identify the channel on which the owner loop reports a call's error")
	}
	ff.caps = append(ff.caps, dspCap{"caller.err", errCap})
	if err := role("client.submit", submit); err != nil {
		return nil, err
	}
	if err := role("client.replies", replies); err != nil {
		return nil, err
	}
	if !ff.ownerWrites {
		// to-writer: received by the writer goroutine, select-sent by the owner loop; write-failed: the other way
		var toWriter, failed types.Object
		ast.Inspect(writer.body, func(x ast.Node) bool {
			if cc, ok := x.(*ast.CommClause); ok && cc.Comm != nil {
				if o := dspCommRecvChan(c, cc); o != nil {
					ro := writer.resolve(o)
					for _, so := range dspSelectSendChans(c, osel) {
						for _, src := range dspChanSources(c, owner.Body, so) {
							if src == ro {
								toWriter = ro
							}
						}
					}
				}
			}
			return true
		})
		for _, o := range dspSelectSendChans(c, writer.body) {
			if dspRecvArm(c, osel, writer.resolve(o), dspID) != nil {
				failed = writer.resolve(o)
			}
		}
		if err := role("client.to-writer", toWriter); err != nil {
			return nil, err
		}
		if err := role("client.write-failed", failed); err != nil {
			return nil, err
		}
	}

	// ---------------- server
	hI, _, err := dspIface(c, "Handler")
	if err != nil {
		return nil, err
	}
	sc, _ := c.Pkg.Scope().Lookup("ServeConn").(*types.Func)
	scd := dspDeclOf(c, sc)
	if scd == nil {
		return nil, fmt.Errorf("flow: ServeConn not found")
	}
	var srvT *types.Named
	ast.Inspect(scd.Body, func(x ast.Node) bool {
		cl, ok := x.(*ast.CompositeLit)
		if !ok {
			return true
		}
		n := dspNamed(c.Info.Types[cl].Type)
		if n == nil {
			return true
		}
		if st, ok := n.Underlying().(*types.Struct); ok {
			for k := 0; k < st.NumFields(); k++ {
				if types.Identical(st.Field(k).Type(), hI) {
					srvT = n
				}
			}
		}
		return true
	})
	if srvT == nil {
		return nil, fmt.Errorf("flow: ServeConn builds no struct that holds the Handler")
	}
	var readM, writeM, serveM *ast.FuncDecl
	var readG, writeG *dspGo
	smethods := dspMethodsOf(c, srvT)
	for _, m := range smethods {
		// the serve method: starts (with go) one goroutine that calls ReadFcall and one that calls WriteFcall
		var rg, wg *dspGo
		var rm, wm *ast.FuncDecl
		for _, st := range m.Body.List {
			g, ok := st.(*ast.GoStmt)
			if !ok {
				continue
			}
			gb := dspGoBody(c, g)
			if gb == nil {
				continue
			}
			if dspCalls(gb.body, "ReadFcall") {
				rg, rm = gb, dspDeclOf(c, dspObj(c, g.Call.Fun))
			}
			if dspCalls(gb.body, "WriteFcall") {
				wg, wm = gb, dspDeclOf(c, dspObj(c, g.Call.Fun))
			}
		}
		if rg != nil && wg != nil {
			if serveM != nil {
				return nil, fmt.Errorf("flow: two server methods start reader and writer goroutines")
			}
			serveM, readG, writeG, readM, writeM = m, rg, wg, rm, wm
		}
	}
	_, _ = readM, writeM
	add("serve: starts one goroutine that calls ReadFcall and one that calls WriteFcall", serveM != nil)
	if serveM == nil {
		return nil, fmt.Errorf("flow: no server method starts a reader and a writer goroutine")
	}
	ssel := dspLoopSelect(serveM.Body)
	if ssel == nil {
		return nil, fmt.Errorf("flow: the serve method does not end in `for { select {…} }`")
	}
	// requests: select-sent by the reader, received by the serve loop
	var requests types.Object
	var sqa *ast.CommClause
	for _, o := range dspSelectSendChans(c, readG.body) {
		if arm := dspRecvArm(c, ssel, readG.resolve(o), dspID); arm != nil {
			requests, sqa = readG.resolve(o), arm
		}
	}
	add("server reader: calls ReadFcall and hands the request over with a select-send that the serve loop receives", requests != nil)
	// responses: received by the writer in a select arm that performs WriteFcall
	var responses types.Object
	if wsel := dspLoopSelect(writeG.body); wsel != nil {
		for _, cl := range wsel.Body.List {
			cc := cl.(*ast.CommClause)
			if cc.Comm == nil {
				continue
			}
			if o := dspCommRecvChan(c, cc); o != nil && inArm(cc) {
				responses = writeG.resolve(o)
			}
		}
	}
	add("server writer: takes a reply from a channel in its select and performs WriteFcall in that arm", responses != nil)
	// the handler goroutine: started in the request arm, calls Handle, select-sends on completed
	var completed types.Object
	hgo, hinline, unblocked := false, false, false
	if sqa != nil {
		ast.Inspect(&ast.BlockStmt{List: sqa.Body}, func(x ast.Node) bool {
			var list []ast.Stmt
			switch y := x.(type) {
			case *ast.BlockStmt:
				list = y.List
			case *ast.CaseClause:
				list = y.Body
			case *ast.CommClause:
				list = y.Body
			case *ast.FuncLit:
				return false
			case *ast.CallExpr:
				if s, ok := dspParen(y.Fun).(*ast.SelectorExpr); ok && s.Sel.Name == "Handle" {
					hinline = true
				}
				return true
			default:
				return true
			}
			for k, st := range list {
				g, ok := st.(*ast.GoStmt)
				if !ok {
					continue
				}
				gb := dspGoBody(c, g)
				if gb == nil || !dspCalls(gb.body, "Handle") {
					continue
				}
				for _, o := range dspSelectSendChans(c, gb.body) {
					if dspRecvArm(c, ssel, gb.resolve(o), dspID) != nil {
						completed = gb.resolve(o)
						hgo = true
					}
				}
				blocks := false
				for _, before := range list[:k] {
					ast.Inspect(before, func(z ast.Node) bool {
						switch w := z.(type) {
						case *ast.FuncLit:
							return false
						case *ast.SelectStmt, *ast.SendStmt:
							blocks = true
						case *ast.UnaryExpr:
							if w.Op == token.ARROW {
								blocks = true
							}
						case *ast.CallExpr:
							if s, ok := dspParen(w.Fun).(*ast.SelectorExpr); ok && (s.Sel.Name == "Wait" || s.Sel.Name == "Lock" || s.Sel.Name == "RLock" || s.Sel.Name == "Acquire") {
								blocks = true
							}
						}
						return true
					})
				}
				unblocked = !blocks
			}
			return true
		})
	}
	var ca *ast.CommClause
	if completed != nil {
		ca = dspRecvArm(c, ssel, completed, dspID)
	}
	add("serve loop: select with an arm taking requests and an arm taking completed handler results", sqa != nil && ca != nil)
	fwd, inl := false, false
	if ca != nil && responses != nil {
		for _, st := range ca.Body {
			if s, ok := st.(*ast.SelectStmt); ok {
				for _, o := range dspSelectSendChans(c, s) {
					if o == responses {
						fwd = true
					}
				}
			}
			if dspCalls(st, "WriteFcall") {
				inl = true
			}
		}
	}
	add("serve loop: the completed arm forwards the reply with a blocking select-send to the writer", fwd && !inl)
	add("serve loop: the handler runs in its own goroutine, which ends in a select-send the serve loop receives", hgo && !hinline)
	add("serve loop: nothing can block between taking a request and starting its handler goroutine", unblocked)
	if err := role("server.requests", requests); err != nil {
		return nil, err
	}
	if err := role("server.responses", responses); err != nil {
		return nil, err
	}
	if err := role("server.completed", completed); err != nil {
		return nil, err
	}
	return ff, nil
}
