package main

import (
	"fmt"
	"go/constant"
	"go/types"
	"sort"
	"strings"
)

// GenConsts.v: every package-level integer and string constant, and the text
// of every Err* variable initialised by new9pError("…") / errors.New("…").
func init() { register("GenConsts.v", genConsts) }

func coqString(s string) string {
	var b strings.Builder
	b.WriteString("[")
	for i := 0; i < len(s); i++ {
		if i > 0 {
			b.WriteString("; ")
		}
		fmt.Fprintf(&b, "%d", s[i])
	}
	b.WriteString("]")
	return b.String()
}

func genConsts(c *Ctx) (string, error) {
	var b strings.Builder
	b.WriteString("From Coq Require Import List NArith ZArith.\nImport ListNotations.\nOpen Scope N_scope.\n\n")
	scope := c.Pkg.Scope()
	names := scope.Names()
	sort.Strings(names)
	for _, n := range names {
		k, ok := scope.Lookup(n).(*types.Const)
		if !ok {
			continue
		}
		v := k.Val()
		switch v.Kind() {
		case constant.Int:
			if u, ok := constant.Uint64Val(v); ok {
				fmt.Fprintf(&b, "Definition c_%s : N := %d.\n", n, u)
			} else if i, ok := constant.Int64Val(v); ok {
				fmt.Fprintf(&b, "Definition cz_%s : Z := (%d)%%Z.\n", n, i)
			}
		case constant.String:
			fmt.Fprintf(&b, "Definition s_%s : list N := %s. (* %q *)\n", n, coqString(constant.StringVal(v)), constant.StringVal(v))
		}
	}
	return b.String(), nil
}
