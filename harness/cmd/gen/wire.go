package main

import (
	"fmt"
	"go/ast"
	"go/constant"
	"go/printer"
	"go/types"
	"sort"
	"strings"
)

// GenWire.v: what the reflection-driven codec of encoding.go sees.
//   - gen_fcall_types   : the FcallType constants with their values
//   - gen_msg_table     : newMessage's switch: type value -> (struct name, ordered exported fields with wire kinds)
//   - gen_type_methods  : each message struct's Type() result
//   - gen_qid_fields / gen_dir_fields : ordered exported fields of Qid and Dir
//   - gen_qid_enc_order / gen_qid_dec_order / gen_qid_size_order and the Fcall analogues:
//     the argument orders of the hand-written cases in encode/decode/size9p
//   - gen_enc_int_arm / gen_dec_int_arm / gen_size_int_arm : the Go types listed in the integer `case` arm
//     of encode/decode/size9p (a named integer type missing there is silently encoded as nothing)
//   - gen_field_int_types : the Go types of all integer-kind fields that occur in messages, Qid, Dir, Fcall
func init() { register("GenWire.v", genWire) }

func kindOf(t types.Type) (string, error) {
	if n, ok := t.(*types.Named); ok {
		full := n.Obj().Name()
		if n.Obj().Pkg() != nil && n.Obj().Pkg().Name() == "time" && full == "Time" {
			return "KTime", nil
		}
		switch full {
		case "Qid":
			return "KQid", nil
		case "Dir":
			return "KDir", nil
		}
	}
	switch u := t.Underlying().(type) {
	case *types.Basic:
		switch u.Kind() {
		case types.Uint8:
			return "(KInt 1)", nil
		case types.Uint16:
			return "(KInt 2)", nil
		case types.Uint32:
			return "(KInt 4)", nil
		case types.Uint64:
			return "(KInt 8)", nil
		case types.String:
			return "KStr", nil
		}
	case *types.Slice:
		el := u.Elem()
		if n, ok := el.(*types.Named); ok && n.Obj().Name() == "Qid" {
			return "KQids", nil
		}
		if b, ok := el.Underlying().(*types.Basic); ok {
			if b.Kind() == types.String {
				return "KStrs", nil
			}
			if b.Kind() == types.Uint8 {
				return "KData", nil
			}
		}
	}
	return "", fmt.Errorf("no wire kind for Go type %s", t.String())
}

func typeName(t types.Type) string {
	return types.TypeString(t, func(p *types.Package) string {
		if p.Name() == "p9p" {
			return ""
		}
		return p.Name()
	})
}

type fieldInfo struct{ name, gotype, kind string }

func structFields(c *Ctx, name string, intTypes map[string]bool) ([]fieldInfo, error) {
	obj := c.Pkg.Scope().Lookup(name)
	if obj == nil {
		return nil, fmt.Errorf("type %s not found", name)
	}
	st, ok := obj.Type().Underlying().(*types.Struct)
	if !ok {
		return nil, fmt.Errorf("%s is not a struct", name)
	}
	var out []fieldInfo
	for i := 0; i < st.NumFields(); i++ {
		f := st.Field(i)
		if !f.Exported() {
			continue // fields9p skips fields that cannot be interfaced
		}
		k, err := kindOf(f.Type())
		if err != nil {
			return nil, fmt.Errorf("%s.%s: %v", name, f.Name(), err)
		}
		if strings.HasPrefix(k, "(KInt") {
			intTypes[typeName(f.Type())] = true
		}
		out = append(out, fieldInfo{f.Name(), typeName(f.Type()), k})
	}
	return out, nil
}

func coqFields(fs []fieldInfo) string {
	var parts []string
	for _, f := range fs {
		parts = append(parts, fmt.Sprintf("(%q, %s)", f.name, f.kind))
	}
	return "[" + strings.Join(parts, "; ") + "]"
}

func coqStrs(ss []string) string {
	var parts []string
	for _, s := range ss {
		parts = append(parts, fmt.Sprintf("%q", s))
	}
	return "[" + strings.Join(parts, "; ") + "]"
}

// bodyText prints an arm's statements (used to recognise arms with identical bodies).
func bodyText(c *Ctx, body []ast.Stmt) string {
	var b strings.Builder
	for _, st := range body {
		printer.Fprint(&b, c.Fset, st)
		b.WriteString("\n")
	}
	return b.String()
}

// typeSwitchArm returns the type names handled like `probe` by the (first, outermost) type switch
// in fn: the types listed in the arm that mentions probe, plus those of every other arm whose
// body is textually identical (one arm listing A, B is the same as two arms with the same body).
func typeSwitchArm(c *Ctx, fn *ast.FuncDecl, probe string) ([]string, error) {
	var result []string
	found := false
	ast.Inspect(fn.Body, func(n ast.Node) bool {
		if found {
			return false
		}
		ts, ok := n.(*ast.TypeSwitchStmt)
		if !ok {
			return true
		}
		armNames := func(cc *ast.CaseClause) (names []string, has bool) {
			for _, e := range cc.List {
				tv, ok := c.Info.Types[e]
				if !ok {
					continue
				}
				s := typeName(tv.Type)
				names = append(names, s)
				if s == probe {
					has = true
				}
			}
			return
		}
		for _, st := range ts.Body.List {
			cc := st.(*ast.CaseClause)
			names, has := armNames(cc)
			if !has {
				continue
			}
			body := bodyText(c, cc.Body)
			for _, st2 := range ts.Body.List {
				if cc2 := st2.(*ast.CaseClause); cc2 != cc && cc2.List != nil && bodyText(c, cc2.Body) == body {
					more, _ := armNames(cc2)
					names = append(names, more...)
				}
			}
			result, found = names, true
			return false
		}
		return false // only the outermost switch
	})
	if !found {
		return nil, fmt.Errorf("%s: no type-switch arm mentions %s", fn.Name.Name, probe)
	}
	return result, nil
}

// caseBody returns the body of the arm of the outermost type switch in fn whose list is exactly [typ].
func caseBody(c *Ctx, fn *ast.FuncDecl, typ string) (*ast.CaseClause, error) {
	cc, _, err := caseBodyB(c, fn, typ)
	return cc, err
}

// caseBodyB also returns the name of the variable the type switch binds (`switch x := y.(type)`).
func caseBodyB(c *Ctx, fn *ast.FuncDecl, typ string) (*ast.CaseClause, string, error) {
	var res *ast.CaseClause
	binder := ""
	ast.Inspect(fn.Body, func(n ast.Node) bool {
		if res != nil {
			return false
		}
		ts, ok := n.(*ast.TypeSwitchStmt)
		if !ok {
			return true
		}
		if as, ok := ts.Assign.(*ast.AssignStmt); ok && len(as.Lhs) == 1 {
			if id, ok := as.Lhs[0].(*ast.Ident); ok {
				binder = id.Name
			}
		}
		for _, st := range ts.Body.List {
			cc := st.(*ast.CaseClause)
			if len(cc.List) == 1 {
				if tv, ok := c.Info.Types[cc.List[0]]; ok && typeName(tv.Type) == typ {
					res = cc
				}
			}
		}
		return false
	})
	if res == nil {
		return nil, "", fmt.Errorf("%s: no `case %s:` arm", fn.Name.Name, typ)
	}
	return res, binder, nil
}

// declOf returns the declaration of a function or method object of the package.
func (c *Ctx) declOf(obj *types.Func) *ast.FuncDecl {
	for _, f := range c.Files {
		for _, d := range f.Decls {
			if fd, ok := d.(*ast.FuncDecl); ok && c.Info.Defs[fd.Name] == obj {
				return fd
			}
		}
	}
	return nil
}

// hasTypeArm: does fn contain a type switch with an arm listing exactly the type typ?
func hasTypeArm(c *Ctx, fn *ast.FuncDecl, typ string) bool {
	if fn.Body == nil {
		return false
	}
	found := false
	ast.Inspect(fn.Body, func(n ast.Node) bool {
		ts, ok := n.(*ast.TypeSwitchStmt)
		if !ok {
			return !found
		}
		for _, st := range ts.Body.List {
			for _, e := range st.(*ast.CaseClause).List {
				if tv, ok := c.Info.Types[e]; ok && typeName(tv.Type) == typ {
					found = true
				}
			}
		}
		return !found
	})
	return found
}

// codecFuncs finds the three hand-written walkers over the wire types by what they are, whatever
// they are called: each has a type switch with an arm for uint8 (encoder, size) or *uint8 (decoder)
// and one for Fcall / *Fcall; the size function is the one whose result is an integer.
func codecFuncs(c *Ctx) (enc, dec, size *ast.FuncDecl, err error) {
	for _, f := range c.Files {
		for _, d := range f.Decls {
			fd, ok := d.(*ast.FuncDecl)
			if !ok || fd.Body == nil {
				continue
			}
			switch {
			case !hasTypeArm(c, fd, "uint8") && hasTypeArm(c, fd, "*uint8") && hasTypeArm(c, fd, "*Fcall"):
				if dec != nil {
					return nil, nil, nil, fmt.Errorf("two decoder-like functions: %s, %s", dec.Name.Name, fd.Name.Name)
				}
				dec = fd
			case hasTypeArm(c, fd, "uint8") && hasTypeArm(c, fd, "Fcall"):
				isInt := false
				if fd.Type.Results != nil && len(fd.Type.Results.List) == 1 {
					if tv, ok := c.Info.Types[fd.Type.Results.List[0].Type]; ok {
						if bt, ok := tv.Type.Underlying().(*types.Basic); ok && bt.Info()&types.IsInteger != 0 {
							isInt = true
						}
					}
				}
				if isInt {
					if size != nil {
						return nil, nil, nil, fmt.Errorf("two size-like functions: %s, %s", size.Name.Name, fd.Name.Name)
					}
					size = fd
				} else {
					if enc != nil {
						return nil, nil, nil, fmt.Errorf("two encoder-like functions: %s, %s", enc.Name.Name, fd.Name.Name)
					}
					enc = fd
				}
			}
		}
	}
	if enc == nil || dec == nil || size == nil {
		return nil, nil, nil, fmt.Errorf("encoder / decoder / size walker over the wire types not found (each is recognised by a type switch with arms for uint8 and Fcall)")
	}
	return enc, dec, size, nil
}

// messageFactory finds the function mapping an FcallType to a fresh Message (newMessage).
func messageFactory(c *Ctx) *ast.FuncDecl {
	for _, f := range c.Files {
		for _, d := range f.Decls {
			fd, ok := d.(*ast.FuncDecl)
			if !ok || fd.Body == nil || fd.Recv != nil || fd.Type.Params == nil || len(fd.Type.Params.List) != 1 || fd.Type.Results == nil || len(fd.Type.Results.List) != 2 {
				continue
			}
			pt, ok1 := c.Info.Types[fd.Type.Params.List[0].Type]
			rt, ok2 := c.Info.Types[fd.Type.Results.List[0].Type]
			if ok1 && ok2 && typeName(pt.Type) == "FcallType" && typeName(rt.Type) == "Message" {
				return fd
			}
		}
	}
	return nil
}

// firstCallArgs finds the first call to callee (a function name or a method selector name)
// inside the clause and returns the field names selected from `v` in its arguments
// (v.Type, &v.Type -> "Type"), v being the variable the type switch binds.
func firstCallArgs(c *Ctx, cc *ast.CaseClause, callee, binder, ty string) ([]string, error) {
	var out []string
	done := false
	for _, st := range cc.Body {
		ast.Inspect(st, func(n ast.Node) bool {
			if done {
				return false
			}
			call, ok := n.(*ast.CallExpr)
			if !ok {
				return true
			}
			name := ""
			switch f := call.Fun.(type) {
			case *ast.Ident:
				name = f.Name
			case *ast.SelectorExpr:
				name = f.Sel.Name
			}
			if name != callee {
				return true
			}
			for _, a := range call.Args {
				if u, ok := a.(*ast.UnaryExpr); ok {
					a = u.X
				}
				sel, ok := a.(*ast.SelectorExpr)
				if !ok {
					return true // not the shape we look for; keep searching
				}
				// the selected value is the switch's bound variable, or any other expression of the
				// arm's type (a local obtained by an explicit assertion, a dereference, an alias)
				isBinder := false
				if id, ok := sel.X.(*ast.Ident); ok && id.Name == binder {
					isBinder = true
				}
				if tv, ok := c.Info.Types[sel.X]; ok && strings.TrimPrefix(typeName(tv.Type), "*") == ty {
					isBinder = true
				}
				if !isBinder {
					return true
				}
				out = append(out, sel.Sel.Name)
			}
			done = true
			return false
		})
		if done {
			break
		}
	}
	if !done {
		return nil, fmt.Errorf("no call %s(v.F, …) in the arm", callee)
	}
	return out, nil
}

func genWire(c *Ctx) (string, error) {
	var b strings.Builder
	b.WriteString("From Coq Require Import List NArith String.\nFrom P9 Require Import Model.WireTypes.\nImport ListNotations.\nOpen Scope string_scope.\nOpen Scope N_scope.\n\n")

	// FcallType constants
	ft := c.Pkg.Scope().Lookup("FcallType")
	if ft == nil {
		return "", fmt.Errorf("FcallType not found")
	}
	type kv struct {
		name string
		val  uint64
	}
	var consts []kv
	for _, n := range c.Pkg.Scope().Names() {
		k, ok := c.Pkg.Scope().Lookup(n).(*types.Const)
		if !ok || !types.Identical(k.Type(), ft.Type()) {
			continue
		}
		v, _ := constant.Uint64Val(k.Val())
		consts = append(consts, kv{n, v})
	}
	sort.Slice(consts, func(i, j int) bool { return consts[i].val < consts[j].val })
	var cs []string
	for _, k := range consts {
		cs = append(cs, fmt.Sprintf("(%q, %d)", k.name, k.val))
	}
	fmt.Fprintf(&b, "Definition gen_fcall_types : list (string * N) :=\n  [%s].\n\n", strings.Join(cs, ";\n   "))

	intTypes := map[string]bool{}

	// newMessage switch
	nm := messageFactory(c)
	if nm == nil {
		return "", fmt.Errorf("no func(FcallType) (Message, error) found (newMessage)")
	}
	var sw *ast.SwitchStmt
	for _, st := range nm.Body.List {
		if s, ok := st.(*ast.SwitchStmt); ok {
			sw = s
		}
	}
	if sw == nil {
		return "", fmt.Errorf("newMessage: no switch statement")
	}
	type row struct {
		val    uint64
		strct  string
		fields []fieldInfo
	}
	var rows []row
	for _, st := range sw.Body.List {
		cc := st.(*ast.CaseClause)
		if cc.List == nil {
			return "", fmt.Errorf("newMessage: unexpected default arm")
		}
		if len(cc.Body) != 1 {
			return "", fmt.Errorf("newMessage: arm with %d statements", len(cc.Body))
		}
		ret, ok := cc.Body[0].(*ast.ReturnStmt)
		if !ok || len(ret.Results) != 2 {
			return "", fmt.Errorf("newMessage: arm is not `return X{}, nil`")
		}
		cl, ok := ret.Results[0].(*ast.CompositeLit)
		if !ok || len(cl.Elts) != 0 {
			return "", fmt.Errorf("newMessage: arm does not return an empty composite literal")
		}
		sname := typeName(c.Info.Types[cl].Type)
		fs, err := structFields(c, sname, intTypes)
		if err != nil {
			return "", err
		}
		for _, e := range cc.List {
			tv := c.Info.Types[e]
			if tv.Value == nil {
				return "", fmt.Errorf("newMessage: non-constant case")
			}
			v, _ := constant.Uint64Val(tv.Value)
			rows = append(rows, row{v, sname, fs})
		}
	}
	sort.SliceStable(rows, func(i, j int) bool { return rows[i].val < rows[j].val })
	b.WriteString("Definition gen_msg_table : list (N * (string * list (string * kind))) :=\n  [")
	for i, r := range rows {
		if i > 0 {
			b.WriteString(";\n   ")
		}
		fmt.Fprintf(&b, "(%d, (%q, %s))", r.val, r.strct, coqFields(r.fields))
	}
	b.WriteString("].\n\n")

	// Type() methods
	var tms []string
	seen := map[string]bool{}
	for _, r := range rows {
		if seen[r.strct] {
			continue
		}
		seen[r.strct] = true
		fd := c.FuncDecl(r.strct, "Type")
		if fd == nil || len(fd.Body.List) != 1 {
			return "", fmt.Errorf("%s.Type(): not a single return", r.strct)
		}
		ret, ok := fd.Body.List[0].(*ast.ReturnStmt)
		if !ok || len(ret.Results) != 1 {
			return "", fmt.Errorf("%s.Type(): not a single return", r.strct)
		}
		tv := c.Info.Types[ret.Results[0]]
		if tv.Value == nil {
			return "", fmt.Errorf("%s.Type(): non-constant result", r.strct)
		}
		v, _ := constant.Uint64Val(tv.Value)
		tms = append(tms, fmt.Sprintf("(%q, %d)", r.strct, v))
	}
	fmt.Fprintf(&b, "Definition gen_type_methods : list (string * N) :=\n  [%s].\n\n", strings.Join(tms, ";\n   "))

	for _, s := range []string{"Qid", "Dir"} {
		fs, err := structFields(c, s, intTypes)
		if err != nil {
			return "", err
		}
		fmt.Fprintf(&b, "Definition gen_%s_fields : list (string * kind) :=\n  %s.\n\n", strings.ToLower(s), coqFields(fs))
	}
	// Fcall: Type, Tag, Message
	{
		obj := c.Pkg.Scope().Lookup("Fcall")
		st, ok := obj.Type().Underlying().(*types.Struct)
		if !ok {
			return "", fmt.Errorf("Fcall is not a struct")
		}
		var parts []string
		for i := 0; i < st.NumFields(); i++ {
			f := st.Field(i)
			parts = append(parts, fmt.Sprintf("(%q, %q)", f.Name(), typeName(f.Type())))
			if b, ok := f.Type().Underlying().(*types.Basic); ok && b.Info()&types.IsUnsigned != 0 {
				intTypes[typeName(f.Type())] = true
			}
		}
		fmt.Fprintf(&b, "Definition gen_fcall_fields : list (string * string) :=\n  [%s].\n\n", strings.Join(parts, "; "))
	}

	// hand-written argument orders
	type fnspec struct {
		fd          *ast.FuncDecl
		name, callee, tag string
	}
	encF, decF, sizeF, err := codecFuncs(c)
	if err != nil {
		return "", err
	}
	specs := []fnspec{{encF, encF.Name.Name, encF.Name.Name, "enc"}, {decF, decF.Name.Name, decF.Name.Name, "dec"}, {sizeF, sizeF.Name.Name, sizeF.Name.Name, "size"}}
	for _, f := range specs {
		fd := f.fd
		for _, ty := range []string{"Qid", "Fcall"} {
			probe := ty
			if f.tag == "dec" {
				probe = "*" + ty
			}
			cc, binder, err := caseBodyB(c, fd, probe)
			if err != nil {
				return "", err
			}
			args, err := firstCallArgs(c, cc, f.callee, binder, ty)
			if err != nil {
				return "", fmt.Errorf("%s, case %s: %v", f.name, probe, err)
			}
			fmt.Fprintf(&b, "Definition gen_%s_%s_order : list string := %s.\n", strings.ToLower(ty), f.tag, coqStrs(args))
		}
		probe := "uint8"
		if f.tag == "dec" {
			probe = "*uint8"
		}
		arm, err := typeSwitchArm(c, fd, probe)
		if err != nil {
			return "", err
		}
		sort.Strings(arm)
		fmt.Fprintf(&b, "Definition gen_%s_int_arm : list string := %s.\n\n", f.tag, coqStrs(arm))
	}
	// the inner type switch of the `case Message:` arm: which Go types get the doubled stat size
	for _, f := range specs {
		fd := f.fd
		cc, err := caseBody(c, fd, "Message")
		if err != nil {
			return "", err
		}
		var inner *ast.TypeSwitchStmt
		for _, st := range cc.Body {
			ast.Inspect(st, func(n ast.Node) bool {
				if inner != nil {
					return false
				}
				if t, ok := n.(*ast.TypeSwitchStmt); ok {
					inner = t
					return false
				}
				return true
			})
		}
		if inner == nil {
			// the arm may have been moved into a helper of this package: look one call level down
			for _, st := range cc.Body {
				ast.Inspect(st, func(n ast.Node) bool {
					if inner != nil {
						return false
					}
					call, ok := n.(*ast.CallExpr)
					if !ok {
						return true
					}
					var id *ast.Ident
					switch fn := call.Fun.(type) {
					case *ast.Ident:
						id = fn
					case *ast.SelectorExpr:
						id = fn.Sel
					}
					if id == nil {
						return true
					}
					obj, ok := c.Info.Uses[id].(*types.Func)
					if !ok || obj.Pkg() != c.Pkg {
						return true
					}
					if hd := c.declOf(obj); hd != nil && hd != fd && hd.Body != nil {
						ast.Inspect(hd.Body, func(m ast.Node) bool {
							if inner != nil {
								return false
							}
							if t, ok := m.(*ast.TypeSwitchStmt); ok {
								inner = t
								return false
							}
							return true
						})
					}
					return true
				})
			}
		}
		if inner == nil {
			return "", fmt.Errorf("%s: the Message arm has no inner type switch (also not in a helper it calls)", f.name)
		}
		// the set of types, whatever the order of the arms and however types are grouped into arms
		// (an arm listing two types is the same as two arms with the same body)
		var names []string
		for _, st := range inner.Body.List {
			ic := st.(*ast.CaseClause)
			for _, e := range ic.List {
				if tv, ok := c.Info.Types[e]; ok {
					names = append(names, typeName(tv.Type))
				}
			}
		}
		sort.Strings(names)
		fmt.Fprintf(&b, "Definition gen_%s_stat_arms : list string := %s.\n", f.tag, coqStrs(names))
	}
	b.WriteString("\n")

	var its []string
	for t := range intTypes {
		its = append(its, t)
	}
	sort.Strings(its)
	fmt.Fprintf(&b, "Definition gen_field_int_types : list string := %s.\n", coqStrs(its))
	return b.String(), nil
}
