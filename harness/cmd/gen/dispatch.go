package main

import (
	"fmt"
	"go/ast"
	"go/constant"
	"go/token"
	"go/types"
	"strings"
)

// GenDispatch.v (property C09, Model/Pipeline.v): the two dispatch layers that
// sit between a caller of the Session interface and the Session that is being
// served, read off the (very regular) ASTs as DATA:
//
//   - gen_session : the Session interface of session.go: per method the Go
//     kinds of its parameters (after ctx) and of its results (before error);
//   - gen_client  : for every method of *client in csession.go that calls
//     c.transport.send: the guards executed before anything is sent
//     (`if len(names) > 16 { return nil, ErrWalkLimit }`), the request struct
//     it builds and, per field of the composite literal, which parameter (by
//     position) feeds it through which conversions; the reply struct it
//     asserts and the error returned when the assertion fails; which reply
//     fields become which results (`rwalk.Qids`, `int(rwrite.Count)`,
//     `n = copy(p, rread.Data)`) and how the error result is derived
//     (`len(rread.Data) == 0 -> io.EOF`, `int(rwrite.Count) < len(p) ->
//     io.ErrShortWrite`);
//   - gen_server  : for every `case MessageTxxx:` of sessionHandler.Handle in
//     ssesssion.go: which session method is called with which message fields
//     in which order through which conversions (`int64(msg.Offset)`, the
//     Tread buffer `p := make([]byte, count)` with count clamped to msize-K,
//     `msg.Wnames...`), and which results fill which fields of the reply
//     literal (`Data: p[:n]`, `Count: uint32(n)`);
//   - gen_errors  : the Ename of the Err* variables the two layers return.
//
// Every statement of the translated functions must be of a recognised shape;
// anything else is an error (the tie to the source is then broken, which
// bin/check reports as such).
func init() { register("GenDispatch.v", genDispatch) }

const dspHeader = `From Coq Require Import List NArith ZArith String.
Import ListNotations.
Open Scope string_scope.

(* T(x) for an integer type T: wrap to [bits] bits, signed or unsigned *)
Inductive dconv := DWrap (bits : N) (signed : bool).

(* Go-level kinds of parameters and results *)
Inductive gkind :=
| GKInt (bits : N) (signed : bool)   (* Fid, Flag, uint32, int64, int ... *)
| GKStr | GKBytes | GKStrs | GKQid | GKQids | GKDir.

(* client: the expression stored into a field of the request literal.
   Conversions are listed innermost first; [] is the identity. *)
Inductive csrc :=
| CParam (i : nat) (convs : list dconv)    (* parameter i (0 = first after ctx) *)
| CLen (i : nat) (convs : list dconv).     (* len(parameter i) *)

(* client: if len(param) > maxlen { return zero values, err } before sending *)
Record cguard := { cg_param : nat; cg_maxlen : N; cg_err : string }.

(* client: a non-error result *)
Inductive cres :=
| CRField (f : string) (convs : list dconv)   (* reply.f through conversions *)
| CRCopy (param : nat) (f : string).          (* n = copy(param, reply.f) *)

(* client: the error result after a reply of the asserted type *)
Inductive cerr :=
| CENil
| CEEofIfEmpty (f : string)                                  (* len(reply.f) == 0 -> io.EOF *)
| CEShortIfLess (f : string) (convs : list dconv) (param : nat).  (* conv(reply.f) < len(param) -> io.ErrShortWrite *)

Record cmethod := {
  cm_name : string;
  cm_params : list gkind;
  cm_variadic : bool;
  cm_results : list gkind;
  cm_guards : list cguard;
  cm_req : string;
  cm_fields : list (string * csrc);
  cm_rep : string;
  cm_unexpected : string;
  cm_res : list cres;
  cm_err : cerr }.

(* server: an argument of the session call *)
Inductive ssrc :=
| SField (f : string) (convs : list dconv)   (* msg.f through conversions *)
| SSpread (f : string)                        (* msg.f... *)
| SBuf (f : string) (sub : Z).                (* make([]byte, count): count = int(msg.f), lowered to msize-sub (not below 0) when larger *)

(* server: the expression stored into a field of the reply literal *)
Inductive srep :=
| SRRes (i : nat) (convs : list dconv)        (* result i of the session call *)
| SRSlice (arg : nat) (i : nat).              (* (argument arg)[:result i], argument arg being an SBuf *)

Record scase := {
  sc_msg : string;
  sc_method : string;
  sc_args : list ssrc;
  sc_nres : nat;
  sc_rep : string;
  sc_rfields : list (string * srep) }.

`

type dspConv struct {
	bits   int
	signed bool
}

func dspConvs(cs []dspConv) string {
	var parts []string
	for _, c := range cs {
		parts = append(parts, fmt.Sprintf("DWrap %d %v", c.bits, c.signed))
	}
	return "[" + strings.Join(parts, "; ") + "]"
}

func dspIntType(t types.Type) (dspConv, bool) {
	b, ok := t.Underlying().(*types.Basic)
	if !ok {
		return dspConv{}, false
	}
	switch b.Kind() {
	case types.Uint8:
		return dspConv{8, false}, true
	case types.Uint16:
		return dspConv{16, false}, true
	case types.Uint32:
		return dspConv{32, false}, true
	case types.Uint64, types.Uint, types.Uintptr:
		return dspConv{64, false}, true
	case types.Int8:
		return dspConv{8, true}, true
	case types.Int16:
		return dspConv{16, true}, true
	case types.Int32:
		return dspConv{32, true}, true
	case types.Int64, types.Int:
		return dspConv{64, true}, true
	}
	return dspConv{}, false
}

func dspKind(t types.Type) (string, error) {
	if n, ok := t.(*types.Named); ok {
		switch n.Obj().Name() {
		case "Qid":
			return "GKQid", nil
		case "Dir":
			return "GKDir", nil
		}
	}
	if c, ok := dspIntType(t); ok {
		return fmt.Sprintf("GKInt %d %v", c.bits, c.signed), nil
	}
	switch u := t.Underlying().(type) {
	case *types.Basic:
		if u.Kind() == types.String {
			return "GKStr", nil
		}
	case *types.Slice:
		if n, ok := u.Elem().(*types.Named); ok && n.Obj().Name() == "Qid" {
			return "GKQids", nil
		}
		if b, ok := u.Elem().Underlying().(*types.Basic); ok {
			if b.Kind() == types.String {
				return "GKStrs", nil
			}
			if b.Kind() == types.Uint8 {
				return "GKBytes", nil
			}
		}
	}
	return "", fmt.Errorf("no Go-level kind for type %s", t.String())
}

func dspKinds(ks []string) string { return "[" + strings.Join(ks, "; ") + "]" }

func dspIsErrorType(t types.Type) bool {
	n, ok := t.(*types.Named)
	return ok && n.Obj().Pkg() == nil && n.Obj().Name() == "error"
}

// signature kinds of a method: params after the leading context, results before the trailing error
func dspSigKinds(sig *types.Signature, who string) (params, results []string, variadic bool, err error) {
	ps := sig.Params()
	if ps.Len() == 0 || !strings.HasSuffix(ps.At(0).Type().String(), "context.Context") {
		return nil, nil, false, fmt.Errorf("%s: first parameter is not a context.Context", who)
	}
	for i := 1; i < ps.Len(); i++ {
		k, e := dspKind(ps.At(i).Type())
		if e != nil {
			return nil, nil, false, fmt.Errorf("%s: parameter %d: %v", who, i, e)
		}
		params = append(params, k)
	}
	rs := sig.Results()
	if rs.Len() == 0 || !dspIsErrorType(rs.At(rs.Len()-1).Type()) {
		return nil, nil, false, fmt.Errorf("%s: last result is not error", who)
	}
	for i := 0; i < rs.Len()-1; i++ {
		k, e := dspKind(rs.At(i).Type())
		if e != nil {
			return nil, nil, false, fmt.Errorf("%s: result %d: %v", who, i, e)
		}
		results = append(results, k)
	}
	return params, results, sig.Variadic(), nil
}

func dspIdent(e ast.Expr) string {
	if id, ok := e.(*ast.Ident); ok {
		return id.Name
	}
	return ""
}

// dspSel matches X.F with X an identifier named x; returns F.
func dspSel(e ast.Expr, x string) (string, bool) {
	s, ok := e.(*ast.SelectorExpr)
	if !ok || dspIdent(s.X) != x {
		return "", false
	}
	return s.Sel.Name, true
}

func dspParen(e ast.Expr) ast.Expr {
	for {
		p, ok := e.(*ast.ParenExpr)
		if !ok {
			return e
		}
		e = p.X
	}
}

// dspUnconv peels integer type conversions T1(T2(... e ...)); conversions are returned innermost first.
func dspUnconv(c *Ctx, e ast.Expr) (ast.Expr, []dspConv, error) {
	var outer []dspConv
	for {
		e = dspParen(e)
		call, ok := e.(*ast.CallExpr)
		if !ok || len(call.Args) != 1 {
			break
		}
		tv, ok := c.Info.Types[call.Fun]
		if !ok || !tv.IsType() {
			break
		}
		cv, ok := dspIntType(tv.Type)
		if !ok {
			return nil, nil, fmt.Errorf("conversion to non-integer type %s", tv.Type.String())
		}
		outer = append(outer, cv)
		e = call.Args[0]
	}
	// reverse: innermost first
	for i, j := 0, len(outer)-1; i < j; i, j = i+1, j-1 {
		outer[i], outer[j] = outer[j], outer[i]
	}
	return e, outer, nil
}

func dspIsLen(e ast.Expr) (ast.Expr, bool) {
	call, ok := dspParen(e).(*ast.CallExpr)
	if !ok || len(call.Args) != 1 || dspIdent(call.Fun) != "len" {
		return nil, false
	}
	return call.Args[0], true
}

func dspIsZeroExpr(e ast.Expr) bool {
	switch x := e.(type) {
	case *ast.Ident:
		return x.Name == "nil"
	case *ast.BasicLit:
		return x.Kind == token.INT && x.Value == "0"
	case *ast.CompositeLit:
		return len(x.Elts) == 0
	}
	return false
}

// dspZeroReturn: block is exactly `return z1, …, zk, <last>` with all z zero-value expressions; returns <last>.
func dspZeroReturn(b *ast.BlockStmt, nres int) (ast.Expr, error) {
	if b == nil || len(b.List) != 1 {
		return nil, fmt.Errorf("block is not a single return")
	}
	ret, ok := b.List[0].(*ast.ReturnStmt)
	if !ok || len(ret.Results) != nres+1 {
		return nil, fmt.Errorf("block is not `return` with %d values", nres+1)
	}
	for i := 0; i < nres; i++ {
		if !dspIsZeroExpr(ret.Results[i]) {
			return nil, fmt.Errorf("error-path return value %d is not a zero value", i)
		}
	}
	return ret.Results[nres], nil
}

type dspField struct {
	name string
	src  string
}

func dspFields(fs []dspField) string {
	var parts []string
	for _, f := range fs {
		parts = append(parts, fmt.Sprintf("(%q, %s)", f.name, f.src))
	}
	return "[" + strings.Join(parts, "; ") + "]"
}

type dspClient struct {
	name, req, rep, unexpected, errExpr string
	params, results                     []string
	variadic                            bool
	guards                              []string
	fields                              []dspField
	res                                 []string
}

func dspKeyedLiteral(e ast.Expr) (string, []*ast.KeyValueExpr, error) {
	cl, ok := e.(*ast.CompositeLit)
	if !ok {
		return "", nil, fmt.Errorf("not a composite literal")
	}
	tn := dspIdent(cl.Type)
	if tn == "" {
		return "", nil, fmt.Errorf("composite literal of unnamed type")
	}
	var kvs []*ast.KeyValueExpr
	for _, el := range cl.Elts {
		kv, ok := el.(*ast.KeyValueExpr)
		if !ok || dspIdent(kv.Key) == "" {
			return "", nil, fmt.Errorf("literal %s{…} has an unkeyed element", tn)
		}
		kvs = append(kvs, kv)
	}
	return tn, kvs, nil
}

func dspClientMethod(c *Ctx, fd *ast.FuncDecl, usedErrs map[string]bool) (*dspClient, error) {
	name := fd.Name.Name
	fail := func(format string, a ...interface{}) (*dspClient, error) {
		return nil, fmt.Errorf("client.%s (%s): "+format, append([]interface{}{name, c.Fset.Position(fd.Pos())}, a...)...)
	}
	obj, ok := c.Info.Defs[fd.Name].(*types.Func)
	if !ok {
		return fail("no type information")
	}
	sig := obj.Type().(*types.Signature)
	params, results, variadic, err := dspSigKinds(sig, "client."+name)
	if err != nil {
		return nil, err
	}
	m := &dspClient{name: name, params: params, results: results, variadic: variadic}
	nres := len(results)
	// parameter positions (after ctx)
	ppos := map[string]int{}
	for i := 1; i < sig.Params().Len(); i++ {
		ppos[sig.Params().At(i).Name()] = i - 1
	}
	if dspIdent(fd.Type.Params.List[0].Names[0]) != "ctx" {
		return fail("first parameter is not named ctx")
	}
	// named results
	var resNames []string
	for i := 0; i < sig.Results().Len(); i++ {
		resNames = append(resNames, sig.Results().At(i).Name())
	}
	src := func(e ast.Expr) (string, error) {
		inner, convs, err := dspUnconv(c, e)
		if err != nil {
			return "", err
		}
		if arg, ok := dspIsLen(inner); ok {
			p, ok := ppos[dspIdent(arg)]
			if !ok {
				return "", fmt.Errorf("len of something that is not a parameter")
			}
			return fmt.Sprintf("CLen %d %s", p, dspConvs(convs)), nil
		}
		p, ok := ppos[dspIdent(inner)]
		if !ok {
			return "", fmt.Errorf("field value is neither a parameter, len(parameter) nor an integer conversion of one")
		}
		return fmt.Sprintf("CParam %d %s", p, dspConvs(convs)), nil
	}

	stmts := fd.Body.List
	i := 0
	// guards
	for i < len(stmts) {
		ifs, ok := stmts[i].(*ast.IfStmt)
		if !ok {
			break
		}
		be, ok := ifs.Cond.(*ast.BinaryExpr)
		if !ok || be.Op != token.GTR || ifs.Init != nil || ifs.Else != nil {
			return fail("guard of unrecognised shape")
		}
		arg, ok := dspIsLen(be.X)
		p, okp := ppos[dspIdent(arg)]
		tv := c.Info.Types[be.Y]
		if !ok || !okp || tv.Value == nil {
			return fail("guard is not `len(param) > constant`")
		}
		lim, _ := constant.Uint64Val(tv.Value)
		last, err := dspZeroReturn(ifs.Body, nres)
		if err != nil {
			return fail("guard: %v", err)
		}
		en := dspIdent(last)
		if !strings.HasPrefix(en, "Err") {
			return fail("guard does not return a package Err* variable")
		}
		usedErrs[en] = true
		m.guards = append(m.guards, fmt.Sprintf("{| cg_param := %d; cg_maxlen := %d; cg_err := %q |}", p, lim, en))
		i++
	}
	// optional local request literal
	locals := map[string]ast.Expr{}
	if i < len(stmts) {
		if as, ok := stmts[i].(*ast.AssignStmt); ok && as.Tok == token.DEFINE && len(as.Lhs) == 1 && len(as.Rhs) == 1 {
			if _, isLit := as.Rhs[0].(*ast.CompositeLit); isLit {
				locals[dspIdent(as.Lhs[0])] = as.Rhs[0]
				i++
			}
		}
	}
	// resp, err := c.transport.send(ctx, <literal>)
	if i >= len(stmts) {
		return fail("no send")
	}
	as, ok := stmts[i].(*ast.AssignStmt)
	if !ok || as.Tok != token.DEFINE || len(as.Lhs) != 2 || len(as.Rhs) != 1 || dspIdent(as.Lhs[0]) != "resp" || dspIdent(as.Lhs[1]) != "err" {
		return fail("expected `resp, err := c.transport.send(ctx, …)`")
	}
	call, ok := as.Rhs[0].(*ast.CallExpr)
	if !ok || len(call.Args) != 2 || dspIdent(call.Args[0]) != "ctx" {
		return fail("expected `c.transport.send(ctx, …)`")
	}
	if s, ok := call.Fun.(*ast.SelectorExpr); !ok || s.Sel.Name != "send" {
		return fail("callee is not …send")
	} else if t, ok := dspSel(s.X, "c"); !ok || t != "transport" {
		return fail("callee is not c.transport.send")
	}
	lit := call.Args[1]
	if id := dspIdent(lit); id != "" {
		l, ok := locals[id]
		if !ok {
			return fail("request argument %s is not a local bound to a literal", id)
		}
		lit = l
	}
	tn, kvs, err := dspKeyedLiteral(lit)
	if err != nil {
		return fail("request: %v", err)
	}
	m.req = tn
	for _, kv := range kvs {
		s, err := src(kv.Value)
		if err != nil {
			return fail("request field %s: %v", dspIdent(kv.Key), err)
		}
		m.fields = append(m.fields, dspField{dspIdent(kv.Key), s})
	}
	i++
	// if err != nil { return zeros, err }
	if i >= len(stmts) {
		return fail("nothing follows the send")
	}
	ifs, ok := stmts[i].(*ast.IfStmt)
	if !ok || !dspErrNotNil(ifs.Cond) || ifs.Init != nil || ifs.Else != nil {
		return fail("send is not followed by `if err != nil {…}`")
	}
	if last, err := dspZeroReturn(ifs.Body, nres); err != nil || dspIdent(last) != "err" {
		return fail("`if err != nil` does not return zero values and err")
	}
	i++
	// rX, ok := resp.(MessageRxxx)
	if i >= len(stmts) {
		return fail("no type assertion on resp")
	}
	as, ok = stmts[i].(*ast.AssignStmt)
	if !ok || as.Tok != token.DEFINE || len(as.Lhs) != 2 || len(as.Rhs) != 1 || dspIdent(as.Lhs[1]) != "ok" {
		return fail("expected `r, ok := resp.(MessageR…)`")
	}
	ta, ok := as.Rhs[0].(*ast.TypeAssertExpr)
	if !ok || dspIdent(ta.X) != "resp" || dspIdent(ta.Type) == "" {
		return fail("expected a type assertion on resp")
	}
	m.rep = dspIdent(ta.Type)
	rvar := dspIdent(as.Lhs[0])
	i++
	if i >= len(stmts) {
		return fail("nothing follows the type assertion")
	}
	ifs, ok = stmts[i].(*ast.IfStmt)
	if !ok || ifs.Init != nil || ifs.Else != nil {
		return fail("assertion is not followed by `if !ok {…}`")
	}
	if u, ok := ifs.Cond.(*ast.UnaryExpr); !ok || u.Op != token.NOT || dspIdent(u.X) != "ok" {
		return fail("assertion is not followed by `if !ok {…}`")
	}
	last, err := dspZeroReturn(ifs.Body, nres)
	if err != nil || !strings.HasPrefix(dspIdent(last), "Err") {
		return fail("`if !ok` does not return zero values and a package Err* variable")
	}
	m.unexpected = dspIdent(last)
	usedErrs[m.unexpected] = true
	i++
	// tail
	copies := map[string]string{} // named result -> cres
	m.errExpr = "CENil"
	errAssigned := false
	for ; i < len(stmts)-1; i++ {
		switch st := stmts[i].(type) {
		case *ast.AssignStmt:
			// n = copy(p, r.F)
			if st.Tok != token.ASSIGN || len(st.Lhs) != 1 || len(st.Rhs) != 1 {
				return fail("tail: unrecognised assignment")
			}
			call, ok := st.Rhs[0].(*ast.CallExpr)
			if !ok || dspIdent(call.Fun) != "copy" || len(call.Args) != 2 {
				return fail("tail: assignment is not `n = copy(param, reply.F)`")
			}
			p, okp := ppos[dspIdent(call.Args[0])]
			f, okf := dspSel(call.Args[1], rvar)
			if !okp || !okf {
				return fail("tail: copy is not from a reply field into a parameter")
			}
			copies[dspIdent(st.Lhs[0])] = fmt.Sprintf("CRCopy %d %q", p, f)
		case *ast.SwitchStmt:
			// switch { case len(r.F) == 0: err = io.EOF ; case …: (empty) }
			if st.Init != nil || st.Tag != nil || errAssigned {
				return fail("tail: unrecognised switch")
			}
			for ci, cl := range st.Body.List {
				cc := cl.(*ast.CaseClause)
				if ci == 0 {
					if len(cc.List) != 1 || len(cc.Body) != 1 {
						return fail("tail: first switch case of unrecognised shape")
					}
					be, ok := cc.List[0].(*ast.BinaryExpr)
					if !ok || be.Op != token.EQL {
						return fail("tail: first switch case is not `len(reply.F) == 0`")
					}
					arg, okl := dspIsLen(be.X)
					f, okf := dspSel(arg, rvar)
					if bl, okb := be.Y.(*ast.BasicLit); !okl || !okf || !okb || bl.Value != "0" {
						return fail("tail: first switch case is not `len(reply.F) == 0`")
					}
					if !dspAssignsErr(cc.Body[0], "io", "EOF") {
						return fail("tail: first switch case does not set err = io.EOF")
					}
					m.errExpr = fmt.Sprintf("CEEofIfEmpty %q", f)
					errAssigned = true
				} else if len(cc.Body) != 0 {
					return fail("tail: a later switch case has a body (shape not modelled)")
				}
			}
		case *ast.IfStmt:
			// if int(r.F) < len(p) { err = io.ErrShortWrite }
			if st.Init != nil || st.Else != nil || errAssigned || len(st.Body.List) != 1 {
				return fail("tail: unrecognised if")
			}
			be, ok := st.Cond.(*ast.BinaryExpr)
			if !ok || be.Op != token.LSS {
				return fail("tail: if condition is not `conv(reply.F) < len(param)`")
			}
			inner, convs, err := dspUnconv(c, be.X)
			if err != nil {
				return fail("tail: %v", err)
			}
			f, okf := dspSel(inner, rvar)
			arg, okl := dspIsLen(be.Y)
			p, okp := ppos[dspIdent(arg)]
			if !okf || !okl || !okp {
				return fail("tail: if condition is not `conv(reply.F) < len(param)`")
			}
			if !dspAssignsErr(st.Body.List[0], "io", "ErrShortWrite") {
				return fail("tail: if body does not set err = io.ErrShortWrite")
			}
			m.errExpr = fmt.Sprintf("CEShortIfLess %q %s %d", f, dspConvs(convs), p)
			errAssigned = true
		default:
			return fail("tail: unrecognised statement at %s", c.Fset.Position(st.Pos()))
		}
	}
	if i != len(stmts)-1 {
		return fail("missing final return")
	}
	ret, ok := stmts[i].(*ast.ReturnStmt)
	if !ok || len(ret.Results) != nres+1 {
		return fail("final statement is not a return of %d values", nres+1)
	}
	for k := 0; k < nres; k++ {
		e := ret.Results[k]
		if id := dspIdent(e); id != "" {
			cp, ok := copies[id]
			if !ok || id != resNames[k] {
				return fail("result %d is an identifier that is not the named result set by copy", k)
			}
			m.res = append(m.res, cp)
			delete(copies, id)
			continue
		}
		inner, convs, err := dspUnconv(c, e)
		if err != nil {
			return fail("result %d: %v", k, err)
		}
		f, ok := dspSel(inner, rvar)
		if !ok {
			return fail("result %d is not a field of the asserted reply", k)
		}
		m.res = append(m.res, fmt.Sprintf("CRField %q %s", f, dspConvs(convs)))
	}
	if len(copies) != 0 {
		return fail("a copy() result is not returned")
	}
	switch dspIdent(ret.Results[nres]) {
	case "nil":
		if errAssigned {
			return fail("err is computed but nil is returned")
		}
	case "err":
		if resNames[nres] != "err" {
			return fail("returns err but err is not the named error result")
		}
	default:
		return fail("final error result is neither nil nor err")
	}
	return m, nil
}

func dspErrNotNil(e ast.Expr) bool {
	b, ok := e.(*ast.BinaryExpr)
	return ok && b.Op == token.NEQ && dspIdent(b.X) == "err" && dspIdent(b.Y) == "nil"
}

// dspAssignsErr: statement is `err = pkg.name`
func dspAssignsErr(st ast.Stmt, pkg, name string) bool {
	as, ok := st.(*ast.AssignStmt)
	if !ok || as.Tok != token.ASSIGN || len(as.Lhs) != 1 || len(as.Rhs) != 1 || dspIdent(as.Lhs[0]) != "err" {
		return false
	}
	f, ok := dspSel(as.Rhs[0], pkg)
	return ok && f == name
}

type dspServer struct {
	msg, method, rep string
	args             []string
	nres             int
	rfields          []dspField
}

func dspServerCase(c *Ctx, cc *ast.CaseClause, iface *types.Interface, msgVar string) (*dspServer, error) {
	tn := dspIdent(cc.List[0])
	pos := c.Fset.Position(cc.Pos())
	fail := func(format string, a ...interface{}) (*dspServer, error) {
		return nil, fmt.Errorf("sessionHandler.Handle case %s (%s): "+format, append([]interface{}{tn, pos}, a...)...)
	}
	s := &dspServer{msg: tn}
	stmts := cc.Body
	i := 0
	// optional Tread clamp block: count := int(msg.F); if count > msize-K {…}; p := make([]byte, count)
	bufs := map[string]string{} // local buffer variable -> ssrc
	if len(stmts) >= 3 {
		if as, ok := stmts[0].(*ast.AssignStmt); ok && as.Tok == token.DEFINE && len(as.Lhs) == 1 && len(as.Rhs) == 1 {
			if call, ok := as.Rhs[0].(*ast.CallExpr); ok && dspIdent(call.Fun) == "int" && len(call.Args) == 1 {
				cnt := dspIdent(as.Lhs[0])
				f, okf := dspSel(call.Args[0], msgVar)
				if !okf {
					return fail("clamp: count is not int(%s.F)", msgVar)
				}
				ifs, ok := stmts[1].(*ast.IfStmt)
				if !ok || ifs.Init != nil || ifs.Else != nil || len(ifs.Body.List) != 2 {
					return fail("clamp: second statement is not the two-statement if")
				}
				k, ok := dspMsizeMinus(c, ifs.Cond, token.GTR, cnt)
				if !ok {
					return fail("clamp: condition is not `%s > msize-K`", cnt)
				}
				a1, ok := ifs.Body.List[0].(*ast.AssignStmt)
				if !ok || a1.Tok != token.ASSIGN || len(a1.Lhs) != 1 || dspIdent(a1.Lhs[0]) != cnt || len(a1.Rhs) != 1 {
					return fail("clamp: body does not start with `%s = msize - K`", cnt)
				}
				if be, ok := a1.Rhs[0].(*ast.BinaryExpr); !ok || be.Op != token.SUB || dspIdent(be.X) != "msize" || !dspConstIs(c, be.Y, k) {
					return fail("clamp: body does not start with `%s = msize - %d`", cnt, k)
				}
				in, ok := ifs.Body.List[1].(*ast.IfStmt)
				if !ok || in.Init != nil || in.Else != nil || len(in.Body.List) != 1 {
					return fail("clamp: missing `if %s < 0 { %s = 0 }`", cnt, cnt)
				}
				if be, ok := in.Cond.(*ast.BinaryExpr); !ok || be.Op != token.LSS || dspIdent(be.X) != cnt || !dspConstIs(c, be.Y, 0) {
					return fail("clamp: inner condition is not `%s < 0`", cnt)
				}
				if a2, ok := in.Body.List[0].(*ast.AssignStmt); !ok || a2.Tok != token.ASSIGN || len(a2.Lhs) != 1 || dspIdent(a2.Lhs[0]) != cnt || len(a2.Rhs) != 1 || !dspConstIs(c, a2.Rhs[0], 0) {
					return fail("clamp: inner body is not `%s = 0`", cnt)
				}
				mk, ok := stmts[2].(*ast.AssignStmt)
				if !ok || mk.Tok != token.DEFINE || len(mk.Lhs) != 1 || len(mk.Rhs) != 1 {
					return fail("clamp: third statement is not `p := make([]byte, %s)`", cnt)
				}
				mc, ok := mk.Rhs[0].(*ast.CallExpr)
				if !ok || dspIdent(mc.Fun) != "make" || len(mc.Args) != 2 || dspIdent(mc.Args[1]) != cnt {
					return fail("clamp: third statement is not `p := make([]byte, %s)`", cnt)
				}
				if at, ok := mc.Args[0].(*ast.ArrayType); !ok || at.Len != nil || dspIdent(at.Elt) != "byte" {
					return fail("clamp: make of something other than []byte")
				}
				bufs[dspIdent(mk.Lhs[0])] = fmt.Sprintf("SBuf %q (%d)%%Z", f, k)
				i = 3
			}
		}
	}
	if i >= len(stmts) {
		return fail("empty case")
	}
	// the session call: `r…, err := session.M(ctx, …)` + `if err != nil {return nil, err}`, or `if err := session.M(ctx, …); err != nil {return nil, err}`
	var call *ast.CallExpr
	var resVars []string
	var check *ast.IfStmt
	switch st := stmts[i].(type) {
	case *ast.AssignStmt:
		if st.Tok != token.DEFINE || len(st.Rhs) != 1 || len(st.Lhs) < 1 || dspIdent(st.Lhs[len(st.Lhs)-1]) != "err" {
			return fail("expected `…, err := session.M(ctx, …)`")
		}
		call, _ = st.Rhs[0].(*ast.CallExpr)
		for _, l := range st.Lhs[:len(st.Lhs)-1] {
			if dspIdent(l) == "" || dspIdent(l) == "_" {
				return fail("a result of the session call is not bound to a variable")
			}
			resVars = append(resVars, dspIdent(l))
		}
		i++
		if i >= len(stmts) {
			return fail("nothing follows the session call")
		}
		check, _ = stmts[i].(*ast.IfStmt)
		if check == nil || check.Init != nil {
			return fail("session call is not followed by `if err != nil {…}`")
		}
	case *ast.IfStmt:
		as, ok := st.Init.(*ast.AssignStmt)
		if !ok || as.Tok != token.DEFINE || len(as.Lhs) != 1 || dspIdent(as.Lhs[0]) != "err" || len(as.Rhs) != 1 {
			return fail("expected `if err := session.M(ctx, …); err != nil`")
		}
		call, _ = as.Rhs[0].(*ast.CallExpr)
		check = st
	default:
		return fail("unrecognised statement where the session call is expected")
	}
	if call == nil {
		return fail("no session call")
	}
	meth, ok := dspSel(call.Fun, "session")
	if !ok {
		return fail("callee is not session.M")
	}
	s.method = meth
	if len(call.Args) < 1 || dspIdent(call.Args[0]) != "ctx" {
		return fail("session.%s is not called with the handler's ctx first", meth)
	}
	if !dspErrNotNil(check.Cond) || check.Else != nil {
		return fail("error check is not `err != nil` without else")
	}
	if ret, ok := dspSingleReturn(check.Body); !ok || len(ret.Results) != 2 || dspIdent(ret.Results[0]) != "nil" || dspIdent(ret.Results[1]) != "err" {
		return fail("error path is not `return nil, err`")
	}
	// signature from the interface
	var sig *types.Signature
	for k := 0; k < iface.NumMethods(); k++ {
		if iface.Method(k).Name() == meth {
			sig = iface.Method(k).Type().(*types.Signature)
		}
	}
	if sig == nil {
		return fail("Session has no method %s", meth)
	}
	if len(resVars) != sig.Results().Len()-1 {
		return fail("session.%s: %d results bound, the interface has %d before error", meth, len(resVars), sig.Results().Len()-1)
	}
	s.nres = len(resVars)
	bufArg := map[string]int{}
	for k, a := range call.Args[1:] {
		last := k == len(call.Args)-2
		if last && call.Ellipsis.IsValid() {
			f, ok := dspSel(a, msgVar)
			if !ok {
				return fail("argument %d: spread of something that is not %s.F", k, msgVar)
			}
			s.args = append(s.args, fmt.Sprintf("SSpread %q", f))
			continue
		}
		if id := dspIdent(a); id != "" {
			b, ok := bufs[id]
			if !ok {
				return fail("argument %d: identifier %s is not the clamped buffer", k, id)
			}
			s.args = append(s.args, b)
			bufArg[id] = k
			continue
		}
		inner, convs, err := dspUnconv(c, a)
		if err != nil {
			return fail("argument %d: %v", k, err)
		}
		f, ok := dspSel(inner, msgVar)
		if !ok {
			return fail("argument %d is not %s.F (possibly converted)", k, msgVar)
		}
		s.args = append(s.args, fmt.Sprintf("SField %q %s", f, dspConvs(convs)))
	}
	i++
	if i != len(stmts)-1 {
		return fail("expected exactly one statement (the reply return) after the error check")
	}
	ret, ok := stmts[i].(*ast.ReturnStmt)
	if !ok || len(ret.Results) != 2 || dspIdent(ret.Results[1]) != "nil" {
		return fail("final statement is not `return MessageR…{…}, nil`")
	}
	rn, kvs, err := dspKeyedLiteral(ret.Results[0])
	if err != nil {
		return fail("reply: %v", err)
	}
	s.rep = rn
	resPos := map[string]int{}
	for k, v := range resVars {
		resPos[v] = k
	}
	for _, kv := range kvs {
		fname := dspIdent(kv.Key)
		if sl, ok := kv.Value.(*ast.SliceExpr); ok {
			ba, okb := bufArg[dspIdent(sl.X)]
			ri, okr := resPos[dspIdent(sl.High)]
			if !okb || !okr || sl.Low != nil || sl.Slice3 {
				return fail("reply field %s: slice is not buffer[:result]", fname)
			}
			s.rfields = append(s.rfields, dspField{fname, fmt.Sprintf("SRSlice %d %d", ba, ri)})
			continue
		}
		inner, convs, err := dspUnconv(c, kv.Value)
		if err != nil {
			return fail("reply field %s: %v", fname, err)
		}
		ri, ok := resPos[dspIdent(inner)]
		if !ok {
			return fail("reply field %s is not a result of the session call", fname)
		}
		s.rfields = append(s.rfields, dspField{fname, fmt.Sprintf("SRRes %d %s", ri, dspConvs(convs))})
	}
	return s, nil
}

func dspSingleReturn(b *ast.BlockStmt) (*ast.ReturnStmt, bool) {
	if b == nil || len(b.List) != 1 {
		return nil, false
	}
	r, ok := b.List[0].(*ast.ReturnStmt)
	return r, ok
}

func dspConstIs(c *Ctx, e ast.Expr, v int64) bool {
	tv, ok := c.Info.Types[e]
	if !ok || tv.Value == nil {
		return false
	}
	x, ok := constant.Int64Val(tv.Value)
	return ok && x == v
}

// dspMsizeMinus matches `x OP msize-K` and returns K.
func dspMsizeMinus(c *Ctx, e ast.Expr, op token.Token, x string) (int64, bool) {
	be, ok := e.(*ast.BinaryExpr)
	if !ok || be.Op != op || dspIdent(be.X) != x {
		return 0, false
	}
	sub, ok := be.Y.(*ast.BinaryExpr)
	if !ok || sub.Op != token.SUB || dspIdent(sub.X) != "msize" {
		return 0, false
	}
	tv, ok := c.Info.Types[sub.Y]
	if !ok || tv.Value == nil {
		return 0, false
	}
	k, ok := constant.Int64Val(tv.Value)
	return k, ok
}

// dspErrName finds `Name = new9pError("text")` among the package-level vars.
func dspErrName(c *Ctx, name string) (string, error) {
	for _, f := range c.Files {
		for _, d := range f.Decls {
			gd, ok := d.(*ast.GenDecl)
			if !ok || gd.Tok != token.VAR {
				continue
			}
			for _, sp := range gd.Specs {
				vs := sp.(*ast.ValueSpec)
				for k, n := range vs.Names {
					if n.Name != name || k >= len(vs.Values) {
						continue
					}
					call, ok := vs.Values[k].(*ast.CallExpr)
					if !ok || dspIdent(call.Fun) != "new9pError" || len(call.Args) != 1 {
						return "", fmt.Errorf("%s is not initialised by new9pError(\"…\")", name)
					}
					tv, ok := c.Info.Types[call.Args[0]]
					if !ok || tv.Value == nil || tv.Value.Kind() != constant.String {
						return "", fmt.Errorf("%s: argument of new9pError is not a constant string", name)
					}
					return constant.StringVal(tv.Value), nil
				}
			}
		}
	}
	return "", fmt.Errorf("package variable %s not found", name)
}

func genDispatch(c *Ctx) (string, error) {
	var b strings.Builder
	b.WriteString(dspHeader)

	// ---- Session interface
	so := c.Pkg.Scope().Lookup("Session")
	if so == nil {
		return "", fmt.Errorf("type Session not found")
	}
	iface, ok := so.Type().Underlying().(*types.Interface)
	if !ok {
		return "", fmt.Errorf("Session is not an interface")
	}
	b.WriteString("(* session.go: method, parameter kinds after ctx, variadic?, result kinds before error *)\n")
	b.WriteString("Definition gen_session : list (string * list gkind * bool * list gkind) :=\n  [")
	first := true
	nsess := 0
	for k := 0; k < iface.NumMethods(); k++ {
		m := iface.Method(k)
		if m.Name() == "Version" || m.Name() == "Stop" {
			continue
		}
		ps, rs, variadic, err := dspSigKinds(m.Type().(*types.Signature), "Session."+m.Name())
		if err != nil {
			return "", err
		}
		if !first {
			b.WriteString(";\n   ")
		}
		first = false
		nsess++
		fmt.Fprintf(&b, "(%q, %s, %v, %s)", m.Name(), dspKinds(ps), variadic, dspKinds(rs))
	}
	b.WriteString("].\n\n")

	// ---- client methods, in source order of csession.go
	usedErrs := map[string]bool{}
	var clients []*dspClient
	for _, f := range c.Files {
		for _, d := range f.Decls {
			fd, ok := d.(*ast.FuncDecl)
			if !ok || fd.Recv == nil || fd.Body == nil || len(fd.Recv.List) != 1 {
				continue
			}
			t := fd.Recv.List[0].Type
			if s, ok := t.(*ast.StarExpr); ok {
				t = s.X
			}
			if dspIdent(t) != "client" {
				continue
			}
			uses := false
			ast.Inspect(fd.Body, func(n ast.Node) bool {
				if s, ok := n.(*ast.SelectorExpr); ok && s.Sel.Name == "send" {
					uses = true
				}
				return true
			})
			isSess := false
			for k := 0; k < iface.NumMethods(); k++ {
				if iface.Method(k).Name() == fd.Name.Name {
					isSess = true
				}
			}
			if !uses {
				if isSess && fd.Name.Name != "Version" && fd.Name.Name != "Stop" {
					return "", fmt.Errorf("client.%s does not call c.transport.send", fd.Name.Name)
				}
				continue
			}
			m, err := dspClientMethod(c, fd, usedErrs)
			if err != nil {
				return "", err
			}
			clients = append(clients, m)
		}
	}
	if len(clients) != nsess {
		return "", fmt.Errorf("found %d client methods using the transport, the Session interface has %d call methods", len(clients), nsess)
	}
	b.WriteString("(* csession.go *)\nDefinition gen_client : list cmethod :=\n  [")
	for k, m := range clients {
		if k > 0 {
			b.WriteString(";\n   ")
		}
		fmt.Fprintf(&b, "{| cm_name := %q; cm_params := %s; cm_variadic := %v; cm_results := %s;\n      cm_guards := [%s];\n      cm_req := %q; cm_fields := %s;\n      cm_rep := %q; cm_unexpected := %q;\n      cm_res := [%s]; cm_err := %s |}",
			m.name, dspKinds(m.params), m.variadic, dspKinds(m.results), strings.Join(m.guards, "; "),
			m.req, dspFields(m.fields), m.rep, m.unexpected, strings.Join(m.res, "; "), m.errExpr)
	}
	b.WriteString("].\n\n")

	// ---- server cases
	fd := c.FuncDecl("sessionHandler", "Handle")
	if fd == nil {
		return "", fmt.Errorf("sessionHandler.Handle not found")
	}
	// prelude: session := sess.s ; msize := sess.msize ; switch msg := msg.(type) {…}
	if len(fd.Body.List) != 3 {
		return "", fmt.Errorf("sessionHandler.Handle: expected `session := sess.s; msize := sess.msize; switch msg := msg.(type) {…}` (found %d statements)", len(fd.Body.List))
	}
	for k, want := range [][2]string{{"session", "s"}, {"msize", "msize"}} {
		as, ok := fd.Body.List[k].(*ast.AssignStmt)
		if !ok || as.Tok != token.DEFINE || len(as.Lhs) != 1 || len(as.Rhs) != 1 || dspIdent(as.Lhs[0]) != want[0] {
			return "", fmt.Errorf("sessionHandler.Handle: statement %d is not `%s := sess.%s`", k, want[0], want[1])
		}
		if f, ok := dspSel(as.Rhs[0], "sess"); !ok || f != want[1] {
			return "", fmt.Errorf("sessionHandler.Handle: statement %d is not `%s := sess.%s`", k, want[0], want[1])
		}
	}
	// SSession: msize comes from session.Version()
	if sfd := c.FuncDecl("", "SSession"); sfd == nil || len(sfd.Body.List) != 2 {
		return "", fmt.Errorf("SSession: expected `msize, _ := session.Version(); return sessionHandler{session, msize}`")
	} else {
		as, ok := sfd.Body.List[0].(*ast.AssignStmt)
		okShape := ok && as.Tok == token.DEFINE && len(as.Lhs) == 2 && dspIdent(as.Lhs[0]) == "msize" && len(as.Rhs) == 1
		if okShape {
			call, ok := as.Rhs[0].(*ast.CallExpr)
			f, oks := "", false
			if ok {
				f, oks = dspSel(call.Fun, "session")
			}
			okShape = ok && oks && f == "Version"
		}
		ret, okr := sfd.Body.List[1].(*ast.ReturnStmt)
		if okr && len(ret.Results) == 1 {
			cl, ok := ret.Results[0].(*ast.CompositeLit)
			okr = ok && dspIdent(cl.Type) == "sessionHandler" && len(cl.Elts) == 2 && dspIdent(cl.Elts[0]) == "session" && dspIdent(cl.Elts[1]) == "msize"
		} else {
			okr = false
		}
		if !okShape || !okr {
			return "", fmt.Errorf("SSession: expected `msize, _ := session.Version(); return sessionHandler{session, msize}`")
		}
	}
	ts, ok := fd.Body.List[2].(*ast.TypeSwitchStmt)
	if !ok {
		return "", fmt.Errorf("sessionHandler.Handle: third statement is not a type switch")
	}
	tas, ok := ts.Assign.(*ast.AssignStmt)
	if !ok || len(tas.Lhs) != 1 || len(tas.Rhs) != 1 {
		return "", fmt.Errorf("sessionHandler.Handle: type switch is not `switch msg := msg.(type)`")
	}
	msgVar := dspIdent(tas.Lhs[0])
	if tae, ok := tas.Rhs[0].(*ast.TypeAssertExpr); !ok || tae.Type != nil || dspIdent(tae.X) != fd.Type.Params.List[1].Names[0].Name {
		return "", fmt.Errorf("sessionHandler.Handle: type switch is not on the message parameter")
	}
	var servers []*dspServer
	defaultErr := ""
	for _, st := range ts.Body.List {
		cc := st.(*ast.CaseClause)
		if cc.List == nil {
			ret, ok := dspSingleReturn(&ast.BlockStmt{List: cc.Body})
			if !ok || len(ret.Results) != 2 || dspIdent(ret.Results[0]) != "nil" || !strings.HasPrefix(dspIdent(ret.Results[1]), "Err") {
				return "", fmt.Errorf("sessionHandler.Handle: default arm is not `return nil, Err…`")
			}
			defaultErr = dspIdent(ret.Results[1])
			usedErrs[defaultErr] = true
			continue
		}
		if len(cc.List) != 1 || dspIdent(cc.List[0]) == "" {
			return "", fmt.Errorf("sessionHandler.Handle: a case arm lists more than one type (%s)", c.Fset.Position(cc.Pos()))
		}
		s, err := dspServerCase(c, cc, iface, msgVar)
		if err != nil {
			return "", err
		}
		servers = append(servers, s)
	}
	if defaultErr == "" {
		return "", fmt.Errorf("sessionHandler.Handle: no default arm")
	}
	b.WriteString("(* ssesssion.go, sessionHandler.Handle *)\nDefinition gen_server : list scase :=\n  [")
	for k, s := range servers {
		if k > 0 {
			b.WriteString(";\n   ")
		}
		fmt.Fprintf(&b, "{| sc_msg := %q; sc_method := %q; sc_args := [%s]; sc_nres := %d;\n      sc_rep := %q; sc_rfields := %s |}",
			s.msg, s.method, strings.Join(s.args, "; "), s.nres, s.rep, dspFields(s.rfields))
	}
	b.WriteString("].\n\n")
	fmt.Fprintf(&b, "Definition gen_server_default_err : string := %q.\n\n", defaultErr)

	// ---- error names
	b.WriteString("(* errors.go: Ename of the Err* variables the two layers return *)\nDefinition gen_errors : list (string * list N) :=\n  [")
	var en []string
	for n := range usedErrs {
		en = append(en, n)
	}
	sortStrings(en)
	for k, n := range en {
		txt, err := dspErrName(c, n)
		if err != nil {
			return "", err
		}
		if k > 0 {
			b.WriteString(";\n   ")
		}
		fmt.Fprintf(&b, "(%q, %s%%N) (* %q *)", n, coqStringN(txt), txt)
	}
	b.WriteString("].\n\n")

	// ---- transport.handle: who performs the client's WriteFcall
	olw, err := dspOwnerLoopWrites(c)
	if err != nil {
		return "", err
	}
	b.WriteString("(* transport.go, handle: does the owner loop perform ch.WriteFcall itself inside its\n   `case req := <-t.requests` arm (true), or does a goroutine started by handle do it (false)? *)\n")
	fmt.Fprintf(&b, "Definition gen_owner_loop_writes : bool := %v.\n\n", olw)

	// ---- the hand-offs between the goroutines that carry a call (Model/Flow.v)
	ff, err := dspFlowFacts(c)
	if err != nil {
		return "", err
	}
	b.WriteString("(* transport.go / serveconn.go: which goroutine blocks on which hand-off (the structure Model/Flow.v abstracts).\n   Each entry: (fact, holds?).  Channel capacities: (channel, capacity). *)\n")
	b.WriteString("Definition gen_flow_facts : list (string * bool) :=\n  [")
	for k, f := range ff.facts {
		if k > 0 {
			b.WriteString(";\n   ")
		}
		fmt.Fprintf(&b, "(%q, %v)", f.name, f.holds)
	}
	b.WriteString("].\n")
	b.WriteString("Definition gen_flow_chan_caps : list (string * N) :=\n  [")
	for k, f := range ff.caps {
		if k > 0 {
			b.WriteString("; ")
		}
		fmt.Fprintf(&b, "(%q, %d%%N)", f.name, f.cap)
	}
	b.WriteString("].\n")
	return b.String(), nil
}

type dspFact struct {
	name  string
	holds bool
}
type dspCap struct {
	name string
	cap  uint64
}
type dspFlow struct {
	facts []dspFact
	caps  []dspCap
}

// dspSelectSends: does the node contain a select statement with a case `ch <- …` (ch an identifier or x.ch)?
func dspSelectSends(n ast.Node, ch string) bool {
	found := false
	ast.Inspect(n, func(x ast.Node) bool {
		cc, ok := x.(*ast.CommClause)
		if !ok || cc.Comm == nil {
			return true
		}
		if snd, ok := cc.Comm.(*ast.SendStmt); ok {
			if dspIdent(snd.Chan) == ch {
				found = true
			}
			if s, ok := snd.Chan.(*ast.SelectorExpr); ok && s.Sel.Name == ch {
				found = true
			}
		}
		return true
	})
	return found
}

// dspRecvArm finds, in the outermost select of loop, the arm `x := <-ch` / `<-ch`.
func dspRecvArm(sel *ast.SelectStmt, ch string) *ast.CommClause {
	for _, cl := range sel.Body.List {
		cc := cl.(*ast.CommClause)
		var e ast.Expr
		switch x := cc.Comm.(type) {
		case *ast.AssignStmt:
			if len(x.Rhs) == 1 {
				e = x.Rhs[0]
			}
		case *ast.ExprStmt:
			e = x.X
		}
		u, ok := e.(*ast.UnaryExpr)
		if !ok || u.Op != token.ARROW {
			continue
		}
		if dspIdent(u.X) == ch {
			return cc
		}
		if s, ok := u.X.(*ast.SelectorExpr); ok && s.Sel.Name == ch {
			return cc
		}
	}
	return nil
}

// dspLoopSelect: the function body's (last) `for { … select {…} … }`: returns the loop and its single top-level select.
func dspLoopSelect(body *ast.BlockStmt, who string) (*ast.ForStmt, *ast.SelectStmt, error) {
	var loop *ast.ForStmt
	for _, st := range body.List {
		if l, ok := st.(*ast.ForStmt); ok {
			loop = l
		}
		if ls, ok := st.(*ast.LabeledStmt); ok {
			if l, ok := ls.Stmt.(*ast.ForStmt); ok {
				loop = l
			}
		}
	}
	if loop == nil || loop.Cond != nil {
		return nil, nil, fmt.Errorf("%s: no unconditional for loop", who)
	}
	var sel *ast.SelectStmt
	for _, st := range loop.Body.List {
		if s, ok := st.(*ast.SelectStmt); ok {
			if sel != nil {
				return nil, nil, fmt.Errorf("%s: more than one select at the top of the loop", who)
			}
			sel = s
		}
	}
	if sel == nil {
		return nil, nil, fmt.Errorf("%s: loop has no top-level select", who)
	}
	return loop, sel, nil
}

// dspMakeChanCaps: every `x := make(chan T[, n])` / `x = make(…)` / field `x: make(…)` inside n.
func dspMakeChanCaps(c *Ctx, n ast.Node, prefix string, out *[]dspCap) error {
	var err error
	rec := func(name string, call *ast.CallExpr) {
		if dspIdent(call.Fun) != "make" || len(call.Args) == 0 {
			return
		}
		if _, ok := call.Args[0].(*ast.ChanType); !ok {
			return
		}
		capv := uint64(0)
		if len(call.Args) == 2 {
			tv, ok := c.Info.Types[call.Args[1]]
			if !ok || tv.Value == nil {
				err = fmt.Errorf("%s%s: channel capacity is not a constant", prefix, name)
				return
			}
			capv, _ = constant.Uint64Val(tv.Value)
		}
		*out = append(*out, dspCap{prefix + name, capv})
	}
	ast.Inspect(n, func(x ast.Node) bool {
		switch y := x.(type) {
		case *ast.AssignStmt:
			for k, r := range y.Rhs {
				if call, ok := r.(*ast.CallExpr); ok && k < len(y.Lhs) && dspIdent(y.Lhs[k]) != "" {
					rec(dspIdent(y.Lhs[k]), call)
				}
			}
		case *ast.ValueSpec:
			for k, r := range y.Values {
				if call, ok := r.(*ast.CallExpr); ok && k < len(y.Names) {
					rec(y.Names[k].Name, call)
				}
			}
		case *ast.KeyValueExpr:
			if call, ok := y.Value.(*ast.CallExpr); ok && dspIdent(y.Key) != "" {
				rec(dspIdent(y.Key), call)
			}
		}
		return true
	})
	return err
}

// dspFlowFacts reads the blocking structure Model/Flow.v abstracts:
//
//	client reader  : loop { ReadFcall; select { responses <- fcall … } }
//	owner loop     : select arms t.requests / responses (+ writer hand-off); responses arm ends in a send on the
//	                 request's own reply channel, which has capacity >= 1 (never blocks)
//	server reader  : conn.read  : loop { ReadFcall; select { requests <- req … } }
//	server writer  : conn.write : loop { select { resp := <-responses: WriteFcall … } }
//	serve loop     : conn.serve : starts read and write as goroutines; loop select with arms <-requests and
//	                 <-completed; the completed arm hands over with a blocking select { responses <- resp … };
//	                 the requests arm runs the handler in a goroutine that ends in select { completed <- resp … }
func dspFlowFacts(c *Ctx) (*dspFlow, error) {
	ff := &dspFlow{}
	add := func(name string, holds bool) { ff.facts = append(ff.facts, dspFact{name, holds}) }

	// --- client
	hd := c.FuncDecl("transport", "handle")
	if hd == nil {
		return nil, fmt.Errorf("transport.handle not found")
	}
	var reader *ast.FuncLit
	for _, st := range hd.Body.List {
		if g, ok := st.(*ast.GoStmt); ok {
			if fl, ok := g.Call.Fun.(*ast.FuncLit); ok && dspContainsCall(fl.Body, "ReadFcall") {
				if reader != nil {
					return nil, fmt.Errorf("transport.handle: two goroutines call ReadFcall")
				}
				reader = fl
			}
		}
	}
	if reader == nil {
		return nil, fmt.Errorf("transport.handle: no reader goroutine (go func(){… ReadFcall …}())")
	}
	add("client reader: after ReadFcall, hands the reply over with a select-send on responses", dspSelectSends(reader.Body, "responses"))
	_, osel, err := dspLoopSelect(hd.Body, "transport.handle")
	if err != nil {
		return nil, err
	}
	ra := dspRecvArm(osel, "responses")
	add("owner loop: takes replies in its select (case b := <-responses)", ra != nil)
	add("owner loop: takes requests in its select (case req := <-t.requests)", dspRecvArm(osel, "requests") != nil)
	delivers := false
	if ra != nil {
		for _, st := range ra.Body {
			if snd, ok := st.(*ast.SendStmt); ok {
				if f, ok := dspSel(snd.Chan, "req"); ok && f == "response" {
					delivers = true
				}
			}
		}
	}
	add("owner loop: wakes the caller with a plain send on req.response", delivers)
	if fd := c.FuncDecl("", "newFcallRequest"); fd != nil {
		if err := dspMakeChanCaps(c, fd.Body, "fcallRequest.", &ff.caps); err != nil {
			return nil, err
		}
	} else {
		return nil, fmt.Errorf("newFcallRequest not found")
	}
	if fd := c.FuncDecl("", "newTransport"); fd != nil {
		if err := dspMakeChanCaps(c, fd.Body, "transport.", &ff.caps); err != nil {
			return nil, err
		}
	}
	// channels local to handle (declared in its var block / body, outside the goroutines' literals is fine too)
	if err := dspMakeChanCaps(c, hd.Body, "handle.", &ff.caps); err != nil {
		return nil, err
	}

	// --- server
	sd := c.FuncDecl("conn", "serve")
	rd := c.FuncDecl("conn", "read")
	wd := c.FuncDecl("conn", "write")
	if sd == nil || rd == nil || wd == nil {
		return nil, fmt.Errorf("conn.serve / conn.read / conn.write not found")
	}
	goRead, goWrite := false, false
	for _, st := range sd.Body.List {
		if g, ok := st.(*ast.GoStmt); ok {
			if m, ok := dspSel(g.Call.Fun, "c"); ok {
				if m == "read" && len(g.Call.Args) == 1 && dspIdent(g.Call.Args[0]) == "requests" {
					goRead = true
				}
				if m == "write" && len(g.Call.Args) == 1 && dspIdent(g.Call.Args[0]) == "responses" {
					goWrite = true
				}
			}
		}
	}
	add("serve: starts `go c.read(requests)` and `go c.write(responses)`", goRead && goWrite)
	add("server reader: calls ReadFcall and hands the request over with a select-send on requests",
		dspContainsCall(rd.Body, "ReadFcall") && dspSelectSends(rd.Body, "requests"))
	_, wsel, err := dspLoopSelect(wd.Body, "conn.write")
	if err != nil {
		return nil, err
	}
	wa := dspRecvArm(wsel, "responses")
	wr := false
	if wa != nil {
		for _, st := range wa.Body {
			if dspContainsCall(st, "WriteFcall") {
				wr = true
			}
		}
	}
	add("server writer: takes a reply from responses in its select and performs WriteFcall in that arm", wr)
	_, ssel, err := dspLoopSelect(sd.Body, "conn.serve")
	if err != nil {
		return nil, err
	}
	qa := dspRecvArm(ssel, "requests")
	ca := dspRecvArm(ssel, "completed")
	add("serve loop: select with arms <-requests and <-completed", qa != nil && ca != nil)
	fwd, inl := false, false
	if ca != nil {
		for _, st := range ca.Body {
			if s, ok := st.(*ast.SelectStmt); ok && dspSelectSends(s, "responses") {
				fwd = true
			}
			if dspContainsCall(st, "WriteFcall") {
				inl = true
			}
		}
	}
	add("serve loop: the completed arm forwards the reply with a blocking select-send on responses", fwd && !inl)
	hgo, hinline := false, false
	if qa != nil {
		ast.Inspect(&ast.BlockStmt{List: qa.Body}, func(x ast.Node) bool {
			switch y := x.(type) {
			case *ast.GoStmt:
				if fl, ok := y.Call.Fun.(*ast.FuncLit); ok && dspContainsCall(fl.Body, "Handle") && dspSelectSends(fl.Body, "completed") {
					hgo = true
				}
				return false
			case *ast.CallExpr:
				if s, ok := y.Fun.(*ast.SelectorExpr); ok && s.Sel.Name == "Handle" {
					hinline = true
				}
			}
			return true
		})
	}
	add("serve loop: the handler runs in its own goroutine, which ends in a select-send on completed", hgo && !hinline)
	// every request gets its handler at once: in the block that holds the `go func(){… Handle …}()`
	// statement nothing before it can block (no select, send, receive, Wait or Lock)
	unblocked := false
	if qa != nil {
		ast.Inspect(&ast.BlockStmt{List: qa.Body}, func(x ast.Node) bool {
			var list []ast.Stmt
			switch y := x.(type) {
			case *ast.BlockStmt:
				list = y.List
			case *ast.CaseClause:
				list = y.Body
			case *ast.CommClause:
				list = y.Body
			default:
				return true
			}
			for k, st := range list {
				g, ok := st.(*ast.GoStmt)
				if !ok {
					continue
				}
				fl, ok := g.Call.Fun.(*ast.FuncLit)
				if !ok || !dspContainsCall(fl.Body, "Handle") {
					continue
				}
				blocks := false
				for _, before := range list[:k] {
					ast.Inspect(before, func(z ast.Node) bool {
						switch w := z.(type) {
						case *ast.FuncLit:
							return false
						case *ast.SelectStmt, *ast.SendStmt:
							blocks = true
						case *ast.UnaryExpr:
							if w.Op == token.ARROW {
								blocks = true
							}
						case *ast.CallExpr:
							if s, ok := w.Fun.(*ast.SelectorExpr); ok && (s.Sel.Name == "Wait" || s.Sel.Name == "Lock" || s.Sel.Name == "Acquire") {
								blocks = true
							}
						}
						return true
					})
				}
				unblocked = !blocks
			}
			return true
		})
	}
	add("serve loop: nothing can block between taking a request and starting its handler goroutine", unblocked)
	if err := dspMakeChanCaps(c, sd.Body, "serve.", &ff.caps); err != nil {
		return nil, err
	}
	return ff, nil
}

func dspContainsCall(n ast.Node, sel string) bool {
	found := false
	ast.Inspect(n, func(x ast.Node) bool {
		if call, ok := x.(*ast.CallExpr); ok {
			if s, ok := call.Fun.(*ast.SelectorExpr); ok && s.Sel.Name == sel {
				found = true
			}
		}
		return true
	})
	return found
}

// dspOwnerLoopWrites inspects transport.handle: its last statement must be the
// owner loop `for { select { case req := <-t.requests: … } }`.  It reports
// whether the t.requests arm itself calls WriteFcall.  If it does not, some
// goroutine started inside handle (a `go func(){…}()` or `go t.m(…)`) must,
// and nothing else in the owner loop may; any other arrangement is unknown.
func dspOwnerLoopWrites(c *Ctx) (bool, error) {
	fd := c.FuncDecl("transport", "handle")
	if fd == nil || len(fd.Body.List) == 0 {
		return false, fmt.Errorf("transport.handle not found")
	}
	loop, ok := fd.Body.List[len(fd.Body.List)-1].(*ast.ForStmt)
	if !ok || loop.Cond != nil || loop.Init != nil || loop.Post != nil {
		return false, fmt.Errorf("transport.handle: last statement is not the owner loop `for { select {…} }`")
	}
	var sel *ast.SelectStmt
	for _, st := range loop.Body.List {
		if s, ok := st.(*ast.SelectStmt); ok {
			if sel != nil {
				return false, fmt.Errorf("transport.handle: owner loop has more than one select")
			}
			sel = s
		} else if dspContainsCall(st, "WriteFcall") {
			return false, fmt.Errorf("transport.handle: owner loop calls WriteFcall outside its select (shape not modelled)")
		}
	}
	if sel == nil {
		return false, fmt.Errorf("transport.handle: owner loop has no select")
	}
	var reqArm *ast.CommClause
	for _, cl := range sel.Body.List {
		cc := cl.(*ast.CommClause)
		isReq := false
		if as, ok := cc.Comm.(*ast.AssignStmt); ok && len(as.Rhs) == 1 {
			if u, ok := as.Rhs[0].(*ast.UnaryExpr); ok && u.Op == token.ARROW {
				if f, ok := dspSel(u.X, "t"); ok && f == "requests" {
					isReq = true
				}
			}
		}
		if isReq {
			reqArm = cc
			continue
		}
		for _, st := range cc.Body {
			if dspContainsCall(st, "WriteFcall") {
				return false, fmt.Errorf("transport.handle: an arm other than `case req := <-t.requests` calls WriteFcall (shape not modelled)")
			}
		}
	}
	if reqArm == nil {
		return false, fmt.Errorf("transport.handle: no `case req := <-t.requests` arm")
	}
	for _, st := range reqArm.Body {
		if dspContainsCall(st, "WriteFcall") {
			return true, nil
		}
	}
	// somebody else must write: a goroutine started by handle
	writer := false
	for _, st := range fd.Body.List[:len(fd.Body.List)-1] {
		g, ok := st.(*ast.GoStmt)
		if !ok {
			continue
		}
		if fl, ok := g.Call.Fun.(*ast.FuncLit); ok && dspContainsCall(fl.Body, "WriteFcall") {
			writer = true
		}
		if m, ok := dspSel(g.Call.Fun, "t"); ok {
			if md := c.FuncDecl("transport", m); md != nil && dspContainsCall(md.Body, "WriteFcall") {
				writer = true
			}
		}
	}
	if !writer {
		return false, fmt.Errorf("transport.handle: neither the owner loop nor a goroutine it starts calls WriteFcall")
	}
	return false, nil
}

func sortStrings(a []string) {
	for i := 1; i < len(a); i++ {
		for j := i; j > 0 && a[j] < a[j-1]; j-- {
			a[j], a[j-1] = a[j-1], a[j]
		}
	}
}

// coqStringN: a byte list as a Coq list literal of N numerals (own copy: generators are independent).
func coqStringN(s string) string {
	var b strings.Builder
	b.WriteString("[")
	for i := 0; i < len(s); i++ {
		if i > 0 {
			b.WriteString("; ")
		}
		fmt.Fprintf(&b, "%d", s[i])
	}
	b.WriteString("]")
	return b.String()
}
