package main

import (
	"fmt"
	"go/ast"
	"go/constant"
	"go/token"
	"go/types"
	"strings"
)

// GenDispatch.v (property C09, Model/Pipeline.v): the two dispatch layers that
// sit between a caller of the Session interface and the Session that is being
// served, read off the (very regular) ASTs as DATA:
//
//   - gen_session : the Session interface of session.go: per method the Go
//     kinds of its parameters (after ctx) and of its results (before error);
//   - gen_client  : for every method of *client in csession.go that calls
//     c.transport.send: the guards executed before anything is sent
//     (`if len(names) > 16 { return nil, ErrWalkLimit }`), the request struct
//     it builds and, per field of the composite literal, which parameter (by
//     position) feeds it through which conversions; the reply struct it
//     asserts and the error returned when the assertion fails; which reply
//     fields become which results (`rwalk.Qids`, `int(rwrite.Count)`,
//     `n = copy(p, rread.Data)`) and how the error result is derived
//     (`len(rread.Data) == 0 -> io.EOF`, `int(rwrite.Count) < len(p) ->
//     io.ErrShortWrite`);
//   - gen_server  : for every `case MessageTxxx:` of sessionHandler.Handle in
//     ssesssion.go: which session method is called with which message fields
//     in which order through which conversions (`int64(msg.Offset)`, the
//     Tread buffer `p := make([]byte, count)` with count clamped to msize-K,
//     `msg.Wnames...`), and which results fill which fields of the reply
//     literal (`Data: p[:n]`, `Count: uint32(n)`);
//   - gen_errors  : the Ename of the Err* variables the two layers return.
//
// Every statement of the translated functions must be of a recognised shape;
// anything else is an error (the tie to the source is then broken, which
// bin/check reports as such).
func init() { register("GenDispatch.v", genDispatch) }

const dspHeader = `From Coq Require Import List NArith ZArith String.
Import ListNotations.
Open Scope string_scope.

(* T(x) for an integer type T: wrap to [bits] bits, signed or unsigned *)
Inductive dconv := DWrap (bits : N) (signed : bool).

(* Go-level kinds of parameters and results *)
Inductive gkind :=
| GKInt (bits : N) (signed : bool)   (* Fid, Flag, uint32, int64, int ... *)
| GKStr | GKBytes | GKStrs | GKQid | GKQids | GKDir.

(* client: the expression stored into a field of the request literal.
   Conversions are listed innermost first; [] is the identity. *)
Inductive csrc :=
| CParam (i : nat) (convs : list dconv)    (* parameter i (0 = first after ctx) *)
| CLen (i : nat) (convs : list dconv).     (* len(parameter i) *)

(* client: if len(param) > maxlen { return zero values, err } before sending *)
Record cguard := { cg_param : nat; cg_maxlen : N; cg_err : string }.

(* client: a non-error result *)
Inductive cres :=
| CRField (f : string) (convs : list dconv)   (* reply.f through conversions *)
| CRCopy (param : nat) (f : string).          (* n = copy(param, reply.f) *)

(* client: the error result after a reply of the asserted type *)
Inductive cerr :=
| CENil
| CEEofIfEmpty (f : string)                                  (* len(reply.f) == 0 -> io.EOF *)
| CEShortIfLess (f : string) (convs : list dconv) (param : nat).  (* conv(reply.f) < len(param) -> io.ErrShortWrite *)

Record cmethod := {
  cm_name : string;
  cm_params : list gkind;
  cm_variadic : bool;
  cm_results : list gkind;
  cm_guards : list cguard;
  cm_req : string;
  cm_fields : list (string * csrc);
  cm_rep : string;
  cm_unexpected : string;
  cm_res : list cres;
  cm_err : cerr }.

(* server: an argument of the session call *)
Inductive ssrc :=
| SField (f : string) (convs : list dconv)   (* msg.f through conversions *)
| SSpread (f : string)                        (* msg.f... *)
| SBuf (f : string) (sub : Z).                (* make([]byte, count): count = int(msg.f), lowered to msize-sub (not below 0) when larger *)

(* server: the expression stored into a field of the reply literal *)
Inductive srep :=
| SRRes (i : nat) (convs : list dconv)        (* result i of the session call *)
| SRSlice (arg : nat) (i : nat).              (* (argument arg)[:result i], argument arg being an SBuf *)

Record scase := {
  sc_msg : string;
  sc_method : string;
  sc_args : list ssrc;
  sc_nres : nat;
  sc_rep : string;
  sc_rfields : list (string * srep) }.

`

type dspConv struct {
	bits   int
	signed bool
}

func dspConvs(cs []dspConv) string {
	var parts []string
	for _, c := range cs {
		parts = append(parts, fmt.Sprintf("DWrap %d %v", c.bits, c.signed))
	}
	return "[" + strings.Join(parts, "; ") + "]"
}

func dspIntType(t types.Type) (dspConv, bool) {
	b, ok := t.Underlying().(*types.Basic)
	if !ok {
		return dspConv{}, false
	}
	switch b.Kind() {
	case types.Uint8:
		return dspConv{8, false}, true
	case types.Uint16:
		return dspConv{16, false}, true
	case types.Uint32:
		return dspConv{32, false}, true
	case types.Uint64, types.Uint, types.Uintptr:
		return dspConv{64, false}, true
	case types.Int8:
		return dspConv{8, true}, true
	case types.Int16:
		return dspConv{16, true}, true
	case types.Int32:
		return dspConv{32, true}, true
	case types.Int64, types.Int:
		return dspConv{64, true}, true
	}
	return dspConv{}, false
}

func dspKind(t types.Type) (string, error) {
	if n, ok := t.(*types.Named); ok {
		switch n.Obj().Name() {
		case "Qid":
			return "GKQid", nil
		case "Dir":
			return "GKDir", nil
		}
	}
	if c, ok := dspIntType(t); ok {
		return fmt.Sprintf("GKInt %d %v", c.bits, c.signed), nil
	}
	switch u := t.Underlying().(type) {
	case *types.Basic:
		if u.Kind() == types.String {
			return "GKStr", nil
		}
	case *types.Slice:
		if n, ok := u.Elem().(*types.Named); ok && n.Obj().Name() == "Qid" {
			return "GKQids", nil
		}
		if b, ok := u.Elem().Underlying().(*types.Basic); ok {
			if b.Kind() == types.String {
				return "GKStrs", nil
			}
			if b.Kind() == types.Uint8 {
				return "GKBytes", nil
			}
		}
	}
	return "", fmt.Errorf("no Go-level kind for type %s", t.String())
}

func dspKinds(ks []string) string { return "[" + strings.Join(ks, "; ") + "]" }

func dspIsErrorType(t types.Type) bool {
	n, ok := t.(*types.Named)
	return ok && n.Obj().Pkg() == nil && n.Obj().Name() == "error"
}

// signature kinds of a method: params after the leading context, results before the trailing error
func dspSigKinds(sig *types.Signature, who string) (params, results []string, variadic bool, err error) {
	ps := sig.Params()
	if ps.Len() == 0 || !strings.HasSuffix(ps.At(0).Type().String(), "context.Context") {
		return nil, nil, false, fmt.Errorf("%s: first parameter is not a context.Context", who)
	}
	for i := 1; i < ps.Len(); i++ {
		k, e := dspKind(ps.At(i).Type())
		if e != nil {
			return nil, nil, false, fmt.Errorf("%s: parameter %d: %v", who, i, e)
		}
		params = append(params, k)
	}
	rs := sig.Results()
	if rs.Len() == 0 || !dspIsErrorType(rs.At(rs.Len()-1).Type()) {
		return nil, nil, false, fmt.Errorf("%s: last result is not error", who)
	}
	for i := 0; i < rs.Len()-1; i++ {
		k, e := dspKind(rs.At(i).Type())
		if e != nil {
			return nil, nil, false, fmt.Errorf("%s: result %d: %v", who, i, e)
		}
		results = append(results, k)
	}
	return params, results, sig.Variadic(), nil
}

// ---------------------------------------------------------------- resolution helpers
//
// Everything below identifies things by what they ARE (go/types objects and
// types), not by what they are called: locals, receivers, unexported fields,
// helper functions and types may be renamed, statements that do not depend on
// each other may be reordered, a literal may be replaced by an equal constant,
// `if err != nil {…}` may be inverted or carry an else.  Only exported API
// names are used as names (Session, Message, Handler, CSession, SSession,
// ServeConn, the Message*/Err* identifiers, ReadFcall/WriteFcall, io.EOF …).

func dspIdent(e ast.Expr) string {
	if id, ok := e.(*ast.Ident); ok {
		return id.Name
	}
	return ""
}

func dspParen(e ast.Expr) ast.Expr {
	for {
		p, ok := e.(*ast.ParenExpr)
		if !ok {
			return e
		}
		e = p.X
	}
}

// dspObj: the object an identifier or a selector's Sel denotes.
func dspObj(c *Ctx, e ast.Expr) types.Object {
	switch x := dspParen(e).(type) {
	case *ast.Ident:
		if o := c.Info.Uses[x]; o != nil {
			return o
		}
		return c.Info.Defs[x]
	case *ast.SelectorExpr:
		return c.Info.Uses[x.Sel]
	}
	return nil
}

func dspIs(c *Ctx, e ast.Expr, o types.Object) bool {
	if o == nil {
		return false
	}
	id, ok := dspParen(e).(*ast.Ident)
	return ok && dspObj(c, id) == o
}

func dspBuiltin(c *Ctx, e ast.Expr, name string) bool {
	id, ok := dspParen(e).(*ast.Ident)
	if !ok {
		return false
	}
	b, ok := c.Info.Uses[id].(*types.Builtin)
	return ok && b.Name() == name
}

func dspIsNil(c *Ctx, e ast.Expr) bool {
	id, ok := dspParen(e).(*ast.Ident)
	if !ok {
		return false
	}
	_, isNil := c.Info.Uses[id].(*types.Nil)
	return isNil
}

// dspFieldOf matches base.F (base an identifier denoting the object) and returns F.
func dspFieldOf(c *Ctx, e ast.Expr, base func(types.Object) bool) (string, bool) {
	s, ok := dspParen(e).(*ast.SelectorExpr)
	if !ok {
		return "", false
	}
	id, ok := dspParen(s.X).(*ast.Ident)
	if !ok || !base(dspObj(c, id)) {
		return "", false
	}
	return s.Sel.Name, true
}

func dspSame(o types.Object) func(types.Object) bool {
	return func(x types.Object) bool { return o != nil && x == o }
}

func dspNamed(t types.Type) *types.Named {
	if p, ok := t.(*types.Pointer); ok {
		t = p.Elem()
	}
	n, _ := t.(*types.Named)
	return n
}

func dspIsContext(t types.Type) bool { return strings.HasSuffix(t.String(), "context.Context") }

// dspDeclOf finds the declaration of a function or method of this package.
func dspDeclOf(c *Ctx, f types.Object) *ast.FuncDecl {
	if f == nil {
		return nil
	}
	for _, file := range c.Files {
		for _, d := range file.Decls {
			if fd, ok := d.(*ast.FuncDecl); ok && c.Info.Defs[fd.Name] == f {
				return fd
			}
		}
	}
	return nil
}

// dspMethodsOf: the method declarations whose receiver's named type is n.
func dspMethodsOf(c *Ctx, n *types.Named) []*ast.FuncDecl {
	var out []*ast.FuncDecl
	for _, file := range c.Files {
		for _, d := range file.Decls {
			fd, ok := d.(*ast.FuncDecl)
			if !ok || fd.Recv == nil || fd.Body == nil {
				continue
			}
			f, ok := c.Info.Defs[fd.Name].(*types.Func)
			if !ok {
				continue
			}
			if r := f.Type().(*types.Signature).Recv(); r != nil && dspNamed(r.Type()) != nil && dspNamed(r.Type()).Obj() == n.Obj() {
				out = append(out, fd)
			}
		}
	}
	return out
}

func dspRecvObj(c *Ctx, fd *ast.FuncDecl) types.Object {
	if fd.Recv == nil || len(fd.Recv.List) != 1 || len(fd.Recv.List[0].Names) != 1 {
		return nil
	}
	return c.Info.Defs[fd.Recv.List[0].Names[0]]
}

func dspParamObjs(c *Ctx, ft *ast.FuncType) []types.Object {
	var out []types.Object
	if ft.Params == nil {
		return out
	}
	for _, f := range ft.Params.List {
		if len(f.Names) == 0 {
			out = append(out, nil)
		}
		for _, n := range f.Names {
			out = append(out, c.Info.Defs[n])
		}
	}
	return out
}

func dspIface(c *Ctx, name string) (*types.Named, *types.Interface, error) {
	o := c.Pkg.Scope().Lookup(name)
	if o == nil {
		return nil, nil, fmt.Errorf("type %s not found", name)
	}
	n, _ := o.Type().(*types.Named)
	i, ok := o.Type().Underlying().(*types.Interface)
	if n == nil || !ok {
		return nil, nil, fmt.Errorf("%s is not an interface type", name)
	}
	return n, i, nil
}

// dspIsSendSig: func(context.Context, Message) (Message, error)
func dspIsSendSig(t types.Type, msg *types.Named) bool {
	sig, ok := t.(*types.Signature)
	if !ok || sig.Params().Len() != 2 || sig.Results().Len() != 2 || sig.Variadic() {
		return false
	}
	return dspIsContext(sig.Params().At(0).Type()) && types.Identical(sig.Params().At(1).Type(), msg) &&
		types.Identical(sig.Results().At(0).Type(), msg) && dspIsErrorType(sig.Results().At(1).Type())
}

// dspUnconv peels integer type conversions T1(T2(... e ...)); conversions are returned innermost first.
func dspUnconv(c *Ctx, e ast.Expr) (ast.Expr, []dspConv, error) {
	var outer []dspConv
	for {
		e = dspParen(e)
		call, ok := e.(*ast.CallExpr)
		if !ok || len(call.Args) != 1 {
			break
		}
		tv, ok := c.Info.Types[call.Fun]
		if !ok || !tv.IsType() {
			break
		}
		cv, ok := dspIntType(tv.Type)
		if !ok {
			return nil, nil, fmt.Errorf("conversion to non-integer type %s", tv.Type.String())
		}
		outer = append(outer, cv)
		e = call.Args[0]
	}
	for i, j := 0, len(outer)-1; i < j; i, j = i+1, j-1 {
		outer[i], outer[j] = outer[j], outer[i]
	}
	return e, outer, nil
}

func dspIsLen(c *Ctx, e ast.Expr) (ast.Expr, bool) {
	call, ok := dspParen(e).(*ast.CallExpr)
	if !ok || len(call.Args) != 1 || !dspBuiltin(c, call.Fun, "len") {
		return nil, false
	}
	return call.Args[0], true
}

func dspConstVal(c *Ctx, e ast.Expr) (int64, bool) {
	tv, ok := c.Info.Types[e]
	if !ok || tv.Value == nil {
		return 0, false
	}
	return constant.Int64Val(constant.ToInt(tv.Value))
}

func dspConstIs(c *Ctx, e ast.Expr, v int64) bool {
	x, ok := dspConstVal(c, e)
	return ok && x == v
}

// dspIsZeroExpr: nil, a constant equal to the zero value, or T{}.
func dspIsZeroExpr(c *Ctx, e ast.Expr) bool {
	e = dspParen(e)
	if dspIsNil(c, e) {
		return true
	}
	if tv, ok := c.Info.Types[e]; ok && tv.Value != nil {
		switch tv.Value.Kind() {
		case constant.Int, constant.Float:
			return constant.Sign(tv.Value) == 0
		case constant.String:
			return constant.StringVal(tv.Value) == ""
		case constant.Bool:
			return !constant.BoolVal(tv.Value)
		}
		return false
	}
	if cl, ok := e.(*ast.CompositeLit); ok {
		return len(cl.Elts) == 0
	}
	return false
}

// dspZeroReturn: stmts is exactly `return z1, …, zk, <last>` with all z zero-value expressions; returns <last>.
func dspZeroReturn(c *Ctx, stmts []ast.Stmt, nres int) (ast.Expr, error) {
	if len(stmts) != 1 {
		return nil, fmt.Errorf("branch is not a single return")
	}
	ret, ok := stmts[0].(*ast.ReturnStmt)
	if !ok || len(ret.Results) != nres+1 {
		return nil, fmt.Errorf("branch is not a `return` of %d values", nres+1)
	}
	for i := 0; i < nres; i++ {
		if !dspIsZeroExpr(c, ret.Results[i]) {
			return nil, fmt.Errorf("error-path return value %d is not a zero value", i)
		}
	}
	return ret.Results[nres], nil
}

func dspElse(s ast.Stmt) ([]ast.Stmt, bool) {
	switch e := s.(type) {
	case nil:
		return nil, true
	case *ast.BlockStmt:
		return e.List, true
	}
	return nil, false // else-if chains are not modelled
}

// dspSplit: stmts[0] is an if on `test` (cond says which branch is the "yes"
// branch); returns the statements executed when test holds and when it does
// not, accepting `if T {A}; B…`, `if T {A} else {B}`, and both for !T.
// A branch that is followed by further statements must end in a return.
func dspSplit(stmts []ast.Stmt, cond func(ast.Expr) (yes bool, ok bool)) (yesStmts, noStmts []ast.Stmt, ok bool) {
	if len(stmts) == 0 {
		return nil, nil, false
	}
	ifs, isIf := stmts[0].(*ast.IfStmt)
	if !isIf || ifs.Init != nil {
		return nil, nil, false
	}
	yes, okc := cond(ifs.Cond)
	els, oke := dspElse(ifs.Else)
	if !okc || !oke {
		return nil, nil, false
	}
	rest := stmts[1:]
	body := ifs.Body.List
	if ifs.Else != nil {
		if len(rest) != 0 {
			return nil, nil, false
		}
		rest = els
	} else if len(body) == 0 || !dspEndsInReturn(body) {
		// falling out of the if into the rest: only modelled when the rest is empty
		if len(rest) != 0 {
			return nil, nil, false
		}
	}
	if yes {
		return body, rest, true
	}
	return rest, body, true
}

func dspEndsInReturn(stmts []ast.Stmt) bool {
	if len(stmts) == 0 {
		return false
	}
	_, ok := stmts[len(stmts)-1].(*ast.ReturnStmt)
	return ok
}

// dspErrCond recognises `err != nil` / `nil != err` (yes) and `err == nil` (no) for the given error variable.
func dspErrCond(c *Ctx, errObj types.Object) func(ast.Expr) (bool, bool) {
	return func(e ast.Expr) (bool, bool) {
		b, ok := dspParen(e).(*ast.BinaryExpr)
		if !ok || (b.Op != token.NEQ && b.Op != token.EQL) {
			return false, false
		}
		if !((dspIs(c, b.X, errObj) && dspIsNil(c, b.Y)) || (dspIs(c, b.Y, errObj) && dspIsNil(c, b.X))) {
			return false, false
		}
		return b.Op == token.NEQ, true
	}
}

// dspNotCond recognises `!ok` (yes) and `ok` (no).
func dspNotCond(c *Ctx, okObj types.Object) func(ast.Expr) (bool, bool) {
	return func(e ast.Expr) (bool, bool) {
		e = dspParen(e)
		if u, ok := e.(*ast.UnaryExpr); ok && u.Op == token.NOT && dspIs(c, u.X, okObj) {
			return true, true
		}
		if dspIs(c, e, okObj) {
			return false, true
		}
		return false, false
	}
}

type dspField struct {
	name string
	src  string
}

func dspFields(fs []dspField) string {
	var parts []string
	for _, f := range fs {
		parts = append(parts, fmt.Sprintf("(%q, %s)", f.name, f.src))
	}
	return "[" + strings.Join(parts, "; ") + "]"
}

// dspKeyedLiteral: T{F: e, …} with T a named struct type of this package; returns T's name and the pairs.
func dspKeyedLiteral(c *Ctx, e ast.Expr) (string, []*ast.KeyValueExpr, error) {
	cl, ok := dspParen(e).(*ast.CompositeLit)
	if !ok {
		return "", nil, fmt.Errorf("not a composite literal")
	}
	tv, ok := c.Info.Types[cl]
	n := (*types.Named)(nil)
	if ok {
		n = dspNamed(tv.Type)
	}
	if n == nil {
		return "", nil, fmt.Errorf("composite literal of unnamed type")
	}
	tn := n.Obj().Name()
	var kvs []*ast.KeyValueExpr
	for _, el := range cl.Elts {
		kv, ok := el.(*ast.KeyValueExpr)
		if !ok || dspIdent(kv.Key) == "" {
			return "", nil, fmt.Errorf("literal %s{…} has an unkeyed element", tn)
		}
		kvs = append(kvs, kv)
	}
	return tn, kvs, nil
}

// dspPkgErr: e denotes a package-level error variable of this package; returns its name.
func dspPkgErr(c *Ctx, e ast.Expr) (string, bool) {
	id, ok := dspParen(e).(*ast.Ident)
	if !ok {
		return "", false
	}
	v, ok := c.Info.Uses[id].(*types.Var)
	if !ok || v.Pkg() != c.Pkg || v.Parent() != c.Pkg.Scope() {
		return "", false
	}
	return v.Name(), true
}

// dspStdVar: e is pkg.Name for a standard-library package path.
func dspStdVar(c *Ctx, e ast.Expr, path, name string) bool {
	s, ok := dspParen(e).(*ast.SelectorExpr)
	if !ok {
		return false
	}
	o := c.Info.Uses[s.Sel]
	return o != nil && o.Pkg() != nil && o.Pkg().Path() == path && o.Name() == name
}

// ---------------------------------------------------------------- client: csession.go

type dspClient struct {
	name, req, rep, unexpected, errExpr string
	params, results                     []string
	variadic                            bool
	guards                              []string
	fields                              []dspField
	res                                 []string
}

// dspSendCall: the call expression is a round trip `x.send(ctx, msg)`: any callee of type
// func(context.Context, Message) (Message, error).
func dspSendCall(c *Ctx, call *ast.CallExpr, msg *types.Named) bool {
	tv, ok := c.Info.Types[call.Fun]
	return ok && !tv.IsType() && len(call.Args) == 2 && dspIsSendSig(tv.Type, msg)
}

func dspClientMethod(c *Ctx, fd *ast.FuncDecl, msgT *types.Named, usedErrs map[string]bool) (*dspClient, error) {
	name := fd.Name.Name
	fail := func(format string, a ...interface{}) (*dspClient, error) {
		return nil, fmt.Errorf("client method %s (%s): "+format, append([]interface{}{name, c.Fset.Position(fd.Pos())}, a...)...)
	}
	obj, ok := c.Info.Defs[fd.Name].(*types.Func)
	if !ok {
		return fail("no type information")
	}
	sig := obj.Type().(*types.Signature)
	params, results, variadic, err := dspSigKinds(sig, "client method "+name)
	if err != nil {
		return nil, err
	}
	m := &dspClient{name: name, params: params, results: results, variadic: variadic}
	nres := len(results)
	ppos := map[types.Object]int{}
	for i := 1; i < sig.Params().Len(); i++ {
		ppos[sig.Params().At(i)] = i - 1
	}
	ctxObj := types.Object(sig.Params().At(0))
	pidx := func(e ast.Expr) (int, bool) {
		id, ok := dspParen(e).(*ast.Ident)
		if !ok {
			return 0, false
		}
		p, ok := ppos[dspObj(c, id)]
		return p, ok
	}
	src := func(e ast.Expr) (string, error) {
		inner, convs, err := dspUnconv(c, e)
		if err != nil {
			return "", err
		}
		if arg, ok := dspIsLen(c, inner); ok {
			p, ok := pidx(arg)
			if !ok {
				return "", fmt.Errorf("len of something that is not a parameter")
			}
			return fmt.Sprintf("CLen %d %s", p, dspConvs(convs)), nil
		}
		p, ok := pidx(inner)
		if !ok {
			return "", fmt.Errorf("field value is neither a parameter, len(parameter) nor an integer conversion of one")
		}
		return fmt.Sprintf("CParam %d %s", p, dspConvs(convs)), nil
	}

	stmts := fd.Body.List
	// ---- before the round trip: guards and (optionally) the request literal bound to a local
	locals := map[types.Object]ast.Expr{}
	i := 0
	var call *ast.CallExpr
	var respObj, errObj types.Object
	for ; i < len(stmts) && call == nil; i++ {
		switch st := stmts[i].(type) {
		case *ast.IfStmt:
			be, ok := dspParen(st.Cond).(*ast.BinaryExpr)
			if !ok || st.Init != nil || st.Else != nil {
				return fail("guard of unrecognised shape")
			}
			lhs, rhs, op := be.X, be.Y, be.Op
			if op == token.LSS { // K < len(x)
				lhs, rhs, op = rhs, lhs, token.GTR
			}
			arg, okl := dspIsLen(c, lhs)
			lim, okk := dspConstVal(c, rhs)
			if op != token.GTR || !okl || !okk || lim < 0 {
				return fail("guard is not `len(param) > constant`")
			}
			p, okp := pidx(arg)
			if !okp {
				return fail("guard is not on a parameter")
			}
			last, err := dspZeroReturn(c, st.Body.List, nres)
			if err != nil {
				return fail("guard: %v", err)
			}
			en, ok := dspPkgErr(c, last)
			if !ok {
				return fail("guard does not return a package-level error variable")
			}
			usedErrs[en] = true
			m.guards = append(m.guards, fmt.Sprintf("{| cg_param := %d; cg_maxlen := %d; cg_err := %q |}", p, lim, en))
		case *ast.AssignStmt:
			if st.Tok != token.DEFINE || len(st.Rhs) != 1 {
				return fail("unrecognised assignment before the round trip")
			}
			if _, isLit := dspParen(st.Rhs[0]).(*ast.CompositeLit); isLit && len(st.Lhs) == 1 {
				locals[c.Info.Defs[st.Lhs[0].(*ast.Ident)]] = st.Rhs[0]
				continue
			}
			cx, ok := dspParen(st.Rhs[0]).(*ast.CallExpr)
			if !ok || !dspSendCall(c, cx, msgT) || len(st.Lhs) != 2 {
				return fail("expected `resp, err := <transport>.send(ctx, request)`")
			}
			l0, ok0 := st.Lhs[0].(*ast.Ident)
			l1, ok1 := st.Lhs[1].(*ast.Ident)
			if !ok0 || !ok1 {
				return fail("round-trip results are not bound to identifiers")
			}
			// with a named error result `resp, err := …` assigns the result variable: Uses, not Defs
			call, respObj, errObj = cx, dspObj(c, l0), dspObj(c, l1)
			if respObj == nil || errObj == nil || l0.Name == "_" || l1.Name == "_" {
				return fail("round-trip results are not bound to variables")
			}
		default:
			return fail("unrecognised statement before the round trip (%s)", c.Fset.Position(st.Pos()))
		}
	}
	if call == nil {
		return fail("no round trip found")
	}
	if !dspIs(c, call.Args[0], ctxObj) {
		return fail("the round trip is not made with the method's own context")
	}
	lit := call.Args[1]
	if id, ok := dspParen(lit).(*ast.Ident); ok {
		l, ok := locals[dspObj(c, id)]
		if !ok {
			return fail("request argument %s is not a local bound to a literal", id.Name)
		}
		lit = l
	}
	tn, kvs, err := dspKeyedLiteral(c, lit)
	if err != nil {
		return fail("request: %v", err)
	}
	m.req = tn
	for _, kv := range kvs {
		s, err := src(kv.Value)
		if err != nil {
			return fail("request field %s: %v", dspIdent(kv.Key), err)
		}
		m.fields = append(m.fields, dspField{dspIdent(kv.Key), s})
	}
	// ---- transport error: zero values and err
	errStmts, rest, ok := dspSplit(stmts[i:], dspErrCond(c, errObj))
	if !ok {
		return fail("the round trip is not followed by a test of its error")
	}
	if last, err := dspZeroReturn(c, errStmts, nres); err != nil || !dspIs(c, last, errObj) {
		return fail("the transport-error path does not return zero values and the error")
	}
	// ---- which reply type is accepted: comma-ok assertion (as a statement or as the init of an if) or a type switch
	good, bad, repName, isReply, err := dspReplyDispatch(c, rest, respObj)
	if err != nil {
		return fail("%v", err)
	}
	m.rep = repName
	last, err := dspZeroReturn(c, bad, nres)
	if err != nil {
		return fail("wrong-reply-type path: %v", err)
	}
	en, ok := dspPkgErr(c, last)
	if !ok {
		return fail("wrong-reply-type path does not return a package-level error variable")
	}
	m.unexpected = en
	usedErrs[en] = true

	// ---- the accepted reply: results and error, by symbolic evaluation of the remaining statements
	if len(good) == 0 {
		return fail("missing final return")
	}
	var resObjs []types.Object
	for k := 0; k < sig.Results().Len(); k++ {
		resObjs = append(resObjs, sig.Results().At(k))
	}
	namedErr := resObjs[nres]
	env := map[types.Object]ast.Expr{} // local or named result -> the expression it holds
	// value: a result expression as a cres
	var value func(e ast.Expr, depth int) (string, error)
	value = func(e ast.Expr, depth int) (string, error) {
		if depth > 8 {
			return "", fmt.Errorf("expression too deep")
		}
		inner, convs, err := dspUnconv(c, e)
		if err != nil {
			return "", err
		}
		if id, ok := dspParen(inner).(*ast.Ident); ok {
			def, ok := env[dspObj(c, id)]
			if !ok {
				return "", fmt.Errorf("identifier %s holds no known value", id.Name)
			}
			if len(convs) == 0 {
				return value(def, depth+1)
			}
			in2, c2, err := dspUnconv(c, def)
			if err != nil {
				return "", err
			}
			f, okf := dspFieldOf(c, in2, isReply)
			if !okf {
				return "", fmt.Errorf("conversion of something that is not a reply field")
			}
			return fmt.Sprintf("CRField %q %s", f, dspConvs(append(append([]dspConv{}, c2...), convs...))), nil
		}
		if cx, ok := dspParen(inner).(*ast.CallExpr); ok && dspBuiltin(c, cx.Fun, "copy") && len(cx.Args) == 2 && len(convs) == 0 {
			p, okp := pidx(cx.Args[0])
			f, okf := dspFieldOf(c, cx.Args[1], isReply)
			if !okp || !okf {
				return "", fmt.Errorf("copy is not from a reply field into a parameter")
			}
			return fmt.Sprintf("CRCopy %d %q", p, f), nil
		}
		f, ok := dspFieldOf(c, inner, isReply)
		if !ok {
			return "", fmt.Errorf("not a field of the accepted reply")
		}
		return fmt.Sprintf("CRField %q %s", f, dspConvs(convs)), nil
	}
	// errRule: the condition under which a non-nil error is produced
	errRule := func(cond ast.Expr, errVal ast.Expr) (string, error) {
		be, ok := dspParen(cond).(*ast.BinaryExpr)
		if !ok {
			return "", fmt.Errorf("unrecognised condition")
		}
		lhs, rhs, op := be.X, be.Y, be.Op
		switch {
		case dspStdVar(c, errVal, "io", "EOF"):
			if op == token.EQL && dspConstIs(c, lhs, 0) {
				lhs, rhs = rhs, lhs
			}
			arg, okl := dspIsLen(c, lhs)
			if op != token.EQL || !okl || !dspConstIs(c, rhs, 0) {
				return "", fmt.Errorf("io.EOF is not produced under `len(reply.F) == 0`")
			}
			f, okf := dspFieldOf(c, arg, isReply)
			if !okf {
				return "", fmt.Errorf("io.EOF is not decided by a reply field")
			}
			return fmt.Sprintf("CEEofIfEmpty %q", f), nil
		case dspStdVar(c, errVal, "io", "ErrShortWrite"):
			if op == token.GTR {
				lhs, rhs, op = rhs, lhs, token.LSS
			}
			arg, okl := dspIsLen(c, rhs)
			if op != token.LSS || !okl {
				return "", fmt.Errorf("io.ErrShortWrite is not produced under `conv(reply.F) < len(param)`")
			}
			p, okp := pidx(arg)
			v, err := value(lhs, 0)
			if err != nil || !okp || !strings.HasPrefix(v, "CRField ") {
				return "", fmt.Errorf("io.ErrShortWrite is not produced under `conv(reply.F) < len(param)`")
			}
			return fmt.Sprintf("CEShortIfLess %s %d", strings.TrimPrefix(v, "CRField "), p), nil
		}
		return "", fmt.Errorf("unrecognised error value")
	}
	m.errExpr = "CENil"
	errSet := false
	setErr := func(rule string) error {
		if errSet {
			return fmt.Errorf("more than one error rule")
		}
		m.errExpr, errSet = rule, true
		return nil
	}
	var early [][]ast.Expr // result expressions of early returns (must equal the final ones)
	for _, st0 := range good[:len(good)-1] {
		switch st := st0.(type) {
		case *ast.AssignStmt:
			if len(st.Lhs) != 1 || len(st.Rhs) != 1 || (st.Tok != token.ASSIGN && st.Tok != token.DEFINE) {
				return fail("accepted reply: unrecognised assignment")
			}
			o := dspObj(c, st.Lhs[0])
			if o == nil {
				return fail("accepted reply: assignment to something that is not a variable")
			}
			if _, err := value(st.Rhs[0], 0); err != nil {
				return fail("accepted reply: %v", err)
			}
			env[o] = st.Rhs[0]
		case *ast.SwitchStmt:
			if st.Init != nil || st.Tag != nil {
				return fail("accepted reply: unrecognised switch")
			}
			for k, cl := range st.Body.List {
				cc := cl.(*ast.CaseClause)
				if len(cc.Body) == 0 {
					continue // an arm without statements does nothing
				}
				as, ok := cc.Body[0].(*ast.AssignStmt)
				if k != 0 || len(cc.List) != 1 || len(cc.Body) != 1 || !ok || as.Tok != token.ASSIGN || len(as.Lhs) != 1 || len(as.Rhs) != 1 ||
					namedErr.Name() == "" || !dspIs(c, as.Lhs[0], namedErr) {
					return fail("accepted reply: switch arm of unrecognised shape")
				}
				rule, err := errRule(cc.List[0], as.Rhs[0])
				if err == nil {
					err = setErr(rule)
				}
				if err != nil {
					return fail("accepted reply: %v", err)
				}
			}
		case *ast.IfStmt:
			if st.Init != nil || st.Else != nil || len(st.Body.List) != 1 {
				return fail("accepted reply: unrecognised if")
			}
			switch b := st.Body.List[0].(type) {
			case *ast.AssignStmt: // if cond { err = io.X }
				if b.Tok != token.ASSIGN || len(b.Lhs) != 1 || len(b.Rhs) != 1 || namedErr.Name() == "" || !dspIs(c, b.Lhs[0], namedErr) {
					return fail("accepted reply: if body is not an assignment to the error result")
				}
				rule, err := errRule(st.Cond, b.Rhs[0])
				if err == nil {
					err = setErr(rule)
				}
				if err != nil {
					return fail("accepted reply: %v", err)
				}
			case *ast.ReturnStmt: // if cond { return vals…, io.X }
				if len(b.Results) != nres+1 {
					return fail("accepted reply: early return of the wrong arity")
				}
				rule, err := errRule(st.Cond, b.Results[nres])
				if err == nil {
					err = setErr(rule)
				}
				if err != nil {
					return fail("accepted reply: %v", err)
				}
				early = append(early, b.Results[:nres])
			default:
				return fail("accepted reply: unrecognised if body")
			}
		default:
			return fail("accepted reply: unrecognised statement at %s", c.Fset.Position(st0.Pos()))
		}
	}
	ret, ok := good[len(good)-1].(*ast.ReturnStmt)
	if !ok || len(ret.Results) != nres+1 {
		return fail("final statement is not a return of %d values", nres+1)
	}
	for k := 0; k < nres; k++ {
		v, err := value(ret.Results[k], 0)
		if err != nil {
			return fail("result %d: %v", k, err)
		}
		for _, ev := range early {
			if v2, err := value(ev[k], 0); err != nil || v2 != v {
				return fail("result %d differs between an early return and the final return", k)
			}
		}
		m.res = append(m.res, v)
	}
	switch {
	case dspIsNil(c, ret.Results[nres]):
		for _, st0 := range good[:len(good)-1] {
			// a rule that ASSIGNS the error result and then returns nil would lose it
			if ifs, ok := st0.(*ast.IfStmt); ok {
				if _, isAs := ifs.Body.List[0].(*ast.AssignStmt); isAs {
					return fail("an error is computed but nil is returned")
				}
			}
			if _, ok := st0.(*ast.SwitchStmt); ok && errSet {
				return fail("an error is computed but nil is returned")
			}
		}
	case namedErr.Name() != "" && dspIs(c, ret.Results[nres], namedErr):
		// the named error result: nil on this path unless a rule above assigned it
	case dspIs(c, ret.Results[nres], errObj) && !errSet:
		// the round trip's error variable, known to be nil on this path
	default:
		return fail("final error result is neither nil nor the error result")
	}
	return m, nil
}

// dspReplyDispatch analyses how the reply's dynamic type is tested.  Accepted forms
// (T a named message type):
//
//	r, ok := reply.(T); then a test of ok (either polarity, with or without else)
//	if r, ok := reply.(T); ok {…} …   /   if _, ok := reply.(T); !ok {…} …
//	switch r := reply.(type) { case T: …; default: … }   (default may be replaced by the statements that follow)
//
// Returns the statements run for an accepted reply, those run otherwise, T's name, and a
// predicate recognising the variable that holds the accepted reply.
func dspReplyDispatch(c *Ctx, stmts []ast.Stmt, respObj types.Object) (good, bad []ast.Stmt, rep string, isReply func(types.Object) bool, err error) {
	none := func(types.Object) bool { return false }
	if len(stmts) == 0 {
		return nil, nil, "", none, fmt.Errorf("the reply's type is never tested")
	}
	assertion := func(as *ast.AssignStmt) (string, func(types.Object) bool, types.Object, bool) {
		if as == nil || as.Tok != token.DEFINE || len(as.Lhs) != 2 || len(as.Rhs) != 1 {
			return "", none, nil, false
		}
		ta, ok := dspParen(as.Rhs[0]).(*ast.TypeAssertExpr)
		if !ok || !dspIs(c, ta.X, respObj) || ta.Type == nil {
			return "", none, nil, false
		}
		tv, ok := c.Info.Types[ta.Type]
		if !ok || dspNamed(tv.Type) == nil {
			return "", none, nil, false
		}
		okId, isId := as.Lhs[1].(*ast.Ident)
		if !isId || c.Info.Defs[okId] == nil {
			return "", none, nil, false
		}
		pred := none
		if id, ok := as.Lhs[0].(*ast.Ident); ok && id.Name != "_" {
			pred = dspSame(c.Info.Defs[id])
		}
		return dspNamed(tv.Type).Obj().Name(), pred, c.Info.Defs[okId], true
	}
	switch st := stmts[0].(type) {
	case *ast.AssignStmt:
		rep, pred, okObj, ok := assertion(st)
		if !ok {
			return nil, nil, "", none, fmt.Errorf("expected `r, ok := reply.(MessageR…)`")
		}
		bad, good, ok2 := dspSplit(stmts[1:], dspNotCond(c, okObj))
		if !ok2 {
			return nil, nil, "", none, fmt.Errorf("the assertion is not followed by a test of its ok")
		}
		return good, bad, rep, pred, nil
	case *ast.IfStmt:
		as, _ := st.Init.(*ast.AssignStmt)
		rep, pred, okObj, ok := assertion(as)
		if !ok {
			return nil, nil, "", none, fmt.Errorf("expected an assertion on the reply")
		}
		plain := *st
		plain.Init = nil
		bad, good, ok2 := dspSplit(append([]ast.Stmt{&plain}, stmts[1:]...), dspNotCond(c, okObj))
		if !ok2 {
			return nil, nil, "", none, fmt.Errorf("the assertion is not followed by a test of its ok")
		}
		return good, bad, rep, pred, nil
	case *ast.TypeSwitchStmt:
		if st.Init != nil {
			return nil, nil, "", none, fmt.Errorf("type switch with an init statement")
		}
		var x ast.Expr
		pred := none
		switch a := st.Assign.(type) {
		case *ast.ExprStmt:
			x = a.X
		case *ast.AssignStmt:
			if len(a.Lhs) == 1 && len(a.Rhs) == 1 {
				x = a.Rhs[0]
				symPos := a.Lhs[0].Pos()
				pred = func(o types.Object) bool {
					v, ok := o.(*types.Var)
					return ok && v.Pos() == symPos
				}
			}
		}
		ta, ok := dspParen(x).(*ast.TypeAssertExpr)
		if !ok || ta.Type != nil || !dspIs(c, ta.X, respObj) {
			return nil, nil, "", none, fmt.Errorf("type switch is not on the reply")
		}
		var dflt []ast.Stmt
		hasDefault := false
		for _, cl := range st.Body.List {
			cc := cl.(*ast.CaseClause)
			if cc.List == nil {
				dflt, hasDefault = cc.Body, true
				continue
			}
			if good != nil || len(cc.List) != 1 {
				return nil, nil, "", none, fmt.Errorf("type switch accepts more than one reply type")
			}
			tv, ok := c.Info.Types[cc.List[0]]
			if !ok || dspNamed(tv.Type) == nil {
				return nil, nil, "", none, fmt.Errorf("type switch case of unnamed type")
			}
			rep, good = dspNamed(tv.Type).Obj().Name(), cc.Body
		}
		if good == nil || !dspEndsInReturn(good) {
			return nil, nil, "", none, fmt.Errorf("type switch has no case for a reply type that ends in a return")
		}
		switch {
		case hasDefault && len(stmts) == 1:
			bad = dflt
		case !hasDefault:
			bad = stmts[1:]
		case hasDefault && len(dflt) == 0:
			bad = stmts[1:]
		default:
			return nil, nil, "", none, fmt.Errorf("type switch with a default arm is followed by further statements")
		}
		return good, bad, rep, pred, nil
	}
	return nil, nil, "", none, fmt.Errorf("the reply's type is not tested right after the transport-error test")
}

// ---------------------------------------------------------------- server: ssesssion.go

type dspServer struct {
	msg, method, rep string
	args             []string
	nres             int
	rfields          []dspField
}

type dspHandlerEnv struct {
	isSession func(ast.Expr) bool // the expression denotes the served Session
	isMsize   func(ast.Expr) bool // the expression denotes the msize taken from session.Version()
	isMsg     func(types.Object) bool
	ctxObj    types.Object
	iface     *types.Interface
}

// dspMsizeMinus matches `x OP msize-K` (or `msize-K OP' x`) and returns K.
func dspMsizeMinus(c *Ctx, env *dspHandlerEnv, e ast.Expr, x types.Object) (int64, bool) {
	be, ok := dspParen(e).(*ast.BinaryExpr)
	if !ok {
		return 0, false
	}
	lhs, rhs, op := be.X, be.Y, be.Op
	if op == token.LSS {
		lhs, rhs, op = rhs, lhs, token.GTR
	}
	if op != token.GTR || !dspIs(c, lhs, x) {
		return 0, false
	}
	return dspMsizeSub(c, env, rhs)
}

// dspMsizeSub matches `msize - K`.
func dspMsizeSub(c *Ctx, env *dspHandlerEnv, e ast.Expr) (int64, bool) {
	sub, ok := dspParen(e).(*ast.BinaryExpr)
	if !ok || sub.Op != token.SUB || !env.isMsize(sub.X) {
		return 0, false
	}
	return dspConstVal(c, sub.Y)
}

func dspServerCase(c *Ctx, cc *ast.CaseClause, env *dspHandlerEnv) (*dspServer, error) {
	tvc, ok := c.Info.Types[cc.List[0]]
	if !ok || dspNamed(tvc.Type) == nil {
		return nil, fmt.Errorf("Handle (%s): case of unnamed type", c.Fset.Position(cc.Pos()))
	}
	tn := dspNamed(tvc.Type).Obj().Name()
	pos := c.Fset.Position(cc.Pos())
	fail := func(format string, a ...interface{}) (*dspServer, error) {
		return nil, fmt.Errorf("Handle case %s (%s): "+format, append([]interface{}{tn, pos}, a...)...)
	}
	s := &dspServer{msg: tn}
	stmts := cc.Body
	i := 0
	// optional Tread clamp block: count := int(msg.F); if count > msize-K { count = msize-K; if count < 0 { count = 0 } }; p := make([]byte, count)
	bufs := map[types.Object]string{} // local buffer variable -> ssrc
	if len(stmts) >= 3 {
		if as, ok := stmts[0].(*ast.AssignStmt); ok && as.Tok == token.DEFINE && len(as.Lhs) == 1 && len(as.Rhs) == 1 {
			if cx, ok := dspParen(as.Rhs[0]).(*ast.CallExpr); ok && len(cx.Args) == 1 {
				tvf, okt := c.Info.Types[cx.Fun]
				isInt := false
				if okt && tvf.IsType() {
					if b, ok := tvf.Type.Underlying().(*types.Basic); ok && b.Kind() == types.Int {
						isInt = true
					}
				}
				if f, okf := dspFieldOf(c, cx.Args[0], env.isMsg); isInt && okf {
					cnt := c.Info.Defs[as.Lhs[0].(*ast.Ident)]
					ifs, ok := stmts[1].(*ast.IfStmt)
					if !ok || ifs.Init != nil || ifs.Else != nil || len(ifs.Body.List) != 2 {
						return fail("clamp: second statement is not the two-statement if")
					}
					k, ok := dspMsizeMinus(c, env, ifs.Cond, cnt)
					if !ok {
						return fail("clamp: condition is not `count > msize-K`")
					}
					a1, ok := ifs.Body.List[0].(*ast.AssignStmt)
					if !ok || a1.Tok != token.ASSIGN || len(a1.Lhs) != 1 || !dspIs(c, a1.Lhs[0], cnt) || len(a1.Rhs) != 1 {
						return fail("clamp: body does not start with `count = msize - K`")
					}
					if k2, ok := dspMsizeSub(c, env, a1.Rhs[0]); !ok || k2 != k {
						return fail("clamp: body does not start with `count = msize - %d`", k)
					}
					in, ok := ifs.Body.List[1].(*ast.IfStmt)
					if !ok || in.Init != nil || in.Else != nil || len(in.Body.List) != 1 {
						return fail("clamp: missing `if count < 0 { count = 0 }`")
					}
					if be, ok := dspParen(in.Cond).(*ast.BinaryExpr); !ok || !((be.Op == token.LSS && dspIs(c, be.X, cnt) && dspConstIs(c, be.Y, 0)) || (be.Op == token.GTR && dspIs(c, be.Y, cnt) && dspConstIs(c, be.X, 0))) {
						return fail("clamp: inner condition is not `count < 0`")
					}
					if a2, ok := in.Body.List[0].(*ast.AssignStmt); !ok || a2.Tok != token.ASSIGN || len(a2.Lhs) != 1 || !dspIs(c, a2.Lhs[0], cnt) || len(a2.Rhs) != 1 || !dspConstIs(c, a2.Rhs[0], 0) {
						return fail("clamp: inner body is not `count = 0`")
					}
					mk, ok := stmts[2].(*ast.AssignStmt)
					if !ok || mk.Tok != token.DEFINE || len(mk.Lhs) != 1 || len(mk.Rhs) != 1 {
						return fail("clamp: third statement is not `p := make([]byte, count)`")
					}
					mc, ok := dspParen(mk.Rhs[0]).(*ast.CallExpr)
					if !ok || !dspBuiltin(c, mc.Fun, "make") || len(mc.Args) != 2 || !dspIs(c, mc.Args[1], cnt) {
						return fail("clamp: third statement is not `p := make([]byte, count)`")
					}
					tvm, okm := c.Info.Types[mc.Args[0]]
					isBytes := false
					if okm {
						if sl, ok := tvm.Type.Underlying().(*types.Slice); ok {
							if b, ok := sl.Elem().Underlying().(*types.Basic); ok && b.Kind() == types.Uint8 {
								isBytes = true
							}
						}
					}
					if !isBytes {
						return fail("clamp: make of something other than []byte")
					}
					bufs[c.Info.Defs[mk.Lhs[0].(*ast.Ident)]] = fmt.Sprintf("SBuf %q (%d)%%Z", f, k)
					i = 3
				}
			}
		}
	}
	if i >= len(stmts) {
		return fail("empty case")
	}
	// the session call: `r…, err := session.M(ctx, …)` then a test of err, or `if err := session.M(ctx, …); err != nil {…}`
	var call *ast.CallExpr
	var resVars []types.Object
	var errObj types.Object
	var after []ast.Stmt
	switch st := stmts[i].(type) {
	case *ast.AssignStmt:
		if st.Tok != token.DEFINE || len(st.Rhs) != 1 || len(st.Lhs) < 1 {
			return fail("expected `…, err := session.M(ctx, …)`")
		}
		call, _ = dspParen(st.Rhs[0]).(*ast.CallExpr)
		for k, l := range st.Lhs {
			id, ok := l.(*ast.Ident)
			if !ok || id.Name == "_" || dspObj(c, id) == nil {
				return fail("a result of the session call is not bound to a variable")
			}
			if k == len(st.Lhs)-1 {
				errObj = dspObj(c, id)
			} else {
				resVars = append(resVars, dspObj(c, id))
			}
		}
		after = stmts[i+1:]
	case *ast.IfStmt:
		as, ok := st.Init.(*ast.AssignStmt)
		if !ok || as.Tok != token.DEFINE || len(as.Lhs) != 1 || len(as.Rhs) != 1 {
			return fail("expected `if err := session.M(ctx, …); err != nil`")
		}
		call, _ = dspParen(as.Rhs[0]).(*ast.CallExpr)
		if id, ok := as.Lhs[0].(*ast.Ident); ok {
			errObj = c.Info.Defs[id]
		}
		// the same if without its init statement, followed by the rest
		plain := *st
		plain.Init = nil
		after = append([]ast.Stmt{&plain}, stmts[i+1:]...)
	default:
		return fail("unrecognised statement where the session call is expected")
	}
	if call == nil || errObj == nil || !dspIsErrorType(errObj.Type()) {
		return fail("no session call whose last result is bound as the error")
	}
	sel, ok := dspParen(call.Fun).(*ast.SelectorExpr)
	if !ok || !env.isSession(sel.X) {
		return fail("callee is not a method of the served session")
	}
	meth := sel.Sel.Name
	s.method = meth
	if len(call.Args) < 1 || !dspIs(c, call.Args[0], env.ctxObj) {
		return fail("session.%s is not called with the handler's context first", meth)
	}
	errStmts, okStmts, ok := dspSplit(after, dspErrCond(c, errObj))
	if !ok {
		return fail("the session call is not followed by a test of its error")
	}
	if len(errStmts) != 1 {
		return fail("error path is not `return nil, err`")
	}
	if ret, ok := errStmts[0].(*ast.ReturnStmt); !ok || len(ret.Results) != 2 || !dspIsNil(c, ret.Results[0]) || !dspIs(c, ret.Results[1], errObj) {
		return fail("error path is not `return nil, err`")
	}
	var sig *types.Signature
	for k := 0; k < env.iface.NumMethods(); k++ {
		if env.iface.Method(k).Name() == meth {
			sig = env.iface.Method(k).Type().(*types.Signature)
		}
	}
	if sig == nil {
		return fail("Session has no method %s", meth)
	}
	if len(resVars) != sig.Results().Len()-1 {
		return fail("session.%s: %d results bound, the interface has %d before error", meth, len(resVars), sig.Results().Len()-1)
	}
	s.nres = len(resVars)
	bufArg := map[types.Object]int{}
	for k, a := range call.Args[1:] {
		last := k == len(call.Args)-2
		if last && call.Ellipsis.IsValid() {
			f, ok := dspFieldOf(c, a, env.isMsg)
			if !ok {
				return fail("argument %d: spread of something that is not a field of the message", k)
			}
			s.args = append(s.args, fmt.Sprintf("SSpread %q", f))
			continue
		}
		if id, ok := dspParen(a).(*ast.Ident); ok {
			o := dspObj(c, id)
			b, ok := bufs[o]
			if !ok {
				return fail("argument %d: identifier %s is not the clamped buffer", k, id.Name)
			}
			s.args = append(s.args, b)
			bufArg[o] = k
			continue
		}
		inner, convs, err := dspUnconv(c, a)
		if err != nil {
			return fail("argument %d: %v", k, err)
		}
		f, ok := dspFieldOf(c, inner, env.isMsg)
		if !ok {
			return fail("argument %d is not a field of the message (possibly converted)", k)
		}
		s.args = append(s.args, fmt.Sprintf("SField %q %s", f, dspConvs(convs)))
	}
	if len(okStmts) != 1 {
		return fail("expected exactly one statement (the reply return) on the success path")
	}
	ret, ok := okStmts[0].(*ast.ReturnStmt)
	if !ok || len(ret.Results) != 2 || !dspIsNil(c, ret.Results[1]) {
		return fail("success path is not `return MessageR…{…}, nil`")
	}
	rn, kvs, err := dspKeyedLiteral(c, ret.Results[0])
	if err != nil {
		return fail("reply: %v", err)
	}
	s.rep = rn
	resPos := map[types.Object]int{}
	for k, v := range resVars {
		resPos[v] = k
	}
	rpos := func(e ast.Expr) (int, bool) {
		id, ok := dspParen(e).(*ast.Ident)
		if !ok {
			return 0, false
		}
		k, ok := resPos[dspObj(c, id)]
		return k, ok
	}
	for _, kv := range kvs {
		fname := dspIdent(kv.Key)
		if sl, ok := dspParen(kv.Value).(*ast.SliceExpr); ok {
			ba, okb := 0, false
			if id, ok := dspParen(sl.X).(*ast.Ident); ok {
				ba, okb = bufArg[dspObj(c, id)]
			}
			okr := false
			ri := 0
			if sl.High != nil {
				ri, okr = rpos(sl.High)
			}
			lowOK := sl.Low == nil || dspConstIs(c, sl.Low, 0)
			if !okb || !okr || !lowOK || sl.Slice3 {
				return fail("reply field %s: slice is not buffer[:result]", fname)
			}
			s.rfields = append(s.rfields, dspField{fname, fmt.Sprintf("SRSlice %d %d", ba, ri)})
			continue
		}
		inner, convs, err := dspUnconv(c, kv.Value)
		if err != nil {
			return fail("reply field %s: %v", fname, err)
		}
		ri, ok := rpos(inner)
		if !ok {
			return fail("reply field %s is not a result of the session call", fname)
		}
		s.rfields = append(s.rfields, dspField{fname, fmt.Sprintf("SRRes %d %s", ri, dspConvs(convs))})
	}
	return s, nil
}

// dspErrEname: the Ename of a package-level error variable initialised by
// MessageRerror{Ename: "…"} or by a same-package helper f("…") whose body
// returns such a literal built from its parameter.
func dspErrEname(c *Ctx, name string) (string, error) {
	obj := c.Pkg.Scope().Lookup(name)
	for _, f := range c.Files {
		for _, d := range f.Decls {
			gd, ok := d.(*ast.GenDecl)
			if !ok || gd.Tok != token.VAR {
				continue
			}
			for _, sp := range gd.Specs {
				vs := sp.(*ast.ValueSpec)
				for k, n := range vs.Names {
					if c.Info.Defs[n] != obj || obj == nil || k >= len(vs.Values) {
						continue
					}
					v := dspParen(vs.Values[k])
					lit := func(e ast.Expr, arg func(ast.Expr) (string, bool)) (string, bool) {
						cl, ok := dspParen(e).(*ast.CompositeLit)
						if !ok || len(cl.Elts) != 1 {
							return "", false
						}
						tv, ok := c.Info.Types[cl]
						if !ok || dspNamed(tv.Type) == nil || dspNamed(tv.Type).Obj().Name() != "MessageRerror" {
							return "", false
						}
						el := cl.Elts[0]
						if kv, ok := el.(*ast.KeyValueExpr); ok {
							if dspIdent(kv.Key) != "Ename" {
								return "", false
							}
							el = kv.Value
						}
						return arg(el)
					}
					constStr := func(e ast.Expr) (string, bool) {
						tv, ok := c.Info.Types[e]
						if !ok || tv.Value == nil || tv.Value.Kind() != constant.String {
							return "", false
						}
						return constant.StringVal(tv.Value), true
					}
					if s, ok := lit(v, constStr); ok {
						return s, nil
					}
					call, ok := v.(*ast.CallExpr)
					if !ok || len(call.Args) != 1 {
						return "", fmt.Errorf("%s is initialised neither by MessageRerror{Ename: \"…\"} nor by a helper call with one string", name)
					}
					text, ok := constStr(call.Args[0])
					if !ok {
						return "", fmt.Errorf("%s: the helper's argument is not a constant string", name)
					}
					hd := dspDeclOf(c, dspObj(c, call.Fun))
					if hd == nil || hd.Body == nil || len(hd.Body.List) != 1 {
						return "", fmt.Errorf("%s: cannot see through its initialiser's helper function", name)
					}
					ret, ok := hd.Body.List[0].(*ast.ReturnStmt)
					ps := dspParamObjs(c, hd.Type)
					if !ok || len(ret.Results) != 1 || len(ps) != 1 {
						return "", fmt.Errorf("%s: helper is not `return MessageRerror{Ename: s}`", name)
					}
					if _, ok := lit(ret.Results[0], func(e ast.Expr) (string, bool) { return "", dspIs(c, e, ps[0]) }); !ok {
						return "", fmt.Errorf("%s: helper is not `return MessageRerror{Ename: s}`", name)
					}
					return text, nil
				}
			}
		}
	}
	return "", fmt.Errorf("package variable %s not found", name)
}

// dspFindHandler: the concrete Handler that SSession returns: its type, the
// field holding the served Session and the field holding the msize taken from
// session.Version().
func dspFindHandler(c *Ctx, sessT *types.Named) (h *types.Named, sessField, msizeField *types.Var, err error) {
	so, _ := c.Pkg.Scope().Lookup("SSession").(*types.Func)
	sfd := dspDeclOf(c, so)
	if sfd == nil {
		return nil, nil, nil, fmt.Errorf("SSession not found")
	}
	ps := dspParamObjs(c, sfd.Type)
	if len(ps) != 1 || ps[0] == nil || !types.Identical(ps[0].Type(), sessT) {
		return nil, nil, nil, fmt.Errorf("SSession does not take one Session")
	}
	var versionVar types.Object // x in `x, _ := session.Version()`
	var lit *ast.CompositeLit
	for _, st := range sfd.Body.List {
		switch s := st.(type) {
		case *ast.AssignStmt:
			if s.Tok == token.DEFINE && len(s.Lhs) == 2 && len(s.Rhs) == 1 {
				if cx, ok := dspParen(s.Rhs[0]).(*ast.CallExpr); ok {
					if sel, ok := dspParen(cx.Fun).(*ast.SelectorExpr); ok && sel.Sel.Name == "Version" && dspIs(c, sel.X, ps[0]) {
						if id, ok := s.Lhs[0].(*ast.Ident); ok {
							versionVar = c.Info.Defs[id]
						}
						continue
					}
				}
			}
			return nil, nil, nil, fmt.Errorf("SSession: unrecognised assignment")
		case *ast.ReturnStmt:
			if len(s.Results) == 1 {
				e := dspParen(s.Results[0])
				if u, ok := e.(*ast.UnaryExpr); ok && u.Op == token.AND {
					e = dspParen(u.X)
				}
				lit, _ = e.(*ast.CompositeLit)
			}
		default:
			return nil, nil, nil, fmt.Errorf("SSession: unrecognised statement")
		}
	}
	if lit == nil || versionVar == nil {
		return nil, nil, nil, fmt.Errorf("SSession: expected `msize, _ := session.Version()` and `return handler{…}`")
	}
	tv := c.Info.Types[lit]
	h = dspNamed(tv.Type)
	if h == nil {
		return nil, nil, nil, fmt.Errorf("SSession returns a literal of unnamed type")
	}
	st, ok := h.Underlying().(*types.Struct)
	if !ok {
		return nil, nil, nil, fmt.Errorf("SSession's handler is not a struct")
	}
	for k, el := range lit.Elts {
		var fv *types.Var
		val := el
		if kv, ok := el.(*ast.KeyValueExpr); ok {
			fv, _ = c.Info.Uses[kv.Key.(*ast.Ident)].(*types.Var)
			val = kv.Value
		} else if k < st.NumFields() {
			fv = st.Field(k)
		}
		switch {
		case dspIs(c, val, ps[0]):
			sessField = fv
		case dspIs(c, val, versionVar):
			msizeField = fv
		}
	}
	if sessField == nil || msizeField == nil {
		return nil, nil, nil, fmt.Errorf("SSession: the handler literal does not store the session and the msize of session.Version()")
	}
	return h, sessField, msizeField, nil
}

func genDispatch(c *Ctx) (string, error) {
	var b strings.Builder
	b.WriteString(dspHeader)

	sessT, iface, err := dspIface(c, "Session")
	if err != nil {
		return "", err
	}
	msgT, _, err := dspIface(c, "Message")
	if err != nil {
		return "", err
	}
	b.WriteString("(* session.go: method, parameter kinds after ctx, variadic?, result kinds before error *)\n")
	b.WriteString("Definition gen_session : list (string * list gkind * bool * list gkind) :=\n  [")
	first := true
	nsess := 0
	callMethod := map[string]bool{}
	for k := 0; k < iface.NumMethods(); k++ {
		m := iface.Method(k)
		if m.Name() == "Version" || m.Name() == "Stop" {
			continue
		}
		ps, rs, variadic, err := dspSigKinds(m.Type().(*types.Signature), "Session."+m.Name())
		if err != nil {
			return "", err
		}
		if !first {
			b.WriteString(";\n   ")
		}
		first = false
		nsess++
		callMethod[m.Name()] = true
		fmt.Fprintf(&b, "(%q, %s, %v, %s)", m.Name(), dspKinds(ps), variadic, dspKinds(rs))
	}
	b.WriteString("].\n\n")

	// ---- client: the Session implementation whose call methods make a round trip
	// `send(ctx, Message) (Message, error)`; in source order
	usedErrs := map[string]bool{}
	var clients []*dspClient
	var clientT *types.Named
	for _, f := range c.Files {
		for _, d := range f.Decls {
			fd, ok := d.(*ast.FuncDecl)
			if !ok || fd.Recv == nil || fd.Body == nil || !callMethod[fd.Name.Name] {
				continue
			}
			fo, ok := c.Info.Defs[fd.Name].(*types.Func)
			if !ok {
				continue
			}
			rt := fo.Type().(*types.Signature).Recv().Type()
			if !types.Implements(rt, iface) && !types.Implements(types.NewPointer(rt), iface) {
				continue
			}
			uses := false
			ast.Inspect(fd.Body, func(n ast.Node) bool {
				if cx, ok := n.(*ast.CallExpr); ok && dspSendCall(c, cx, msgT) {
					uses = true
				}
				return true
			})
			if !uses {
				continue
			}
			if clientT == nil {
				clientT = dspNamed(rt)
			} else if dspNamed(rt) == nil || dspNamed(rt).Obj() != clientT.Obj() {
				return "", fmt.Errorf("two Session implementations make round trips (%s and %s)", clientT.Obj().Name(), rt.String())
			}
			m, err := dspClientMethod(c, fd, msgT, usedErrs)
			if err != nil {
				return "", err
			}
			clients = append(clients, m)
		}
	}
	if len(clients) != nsess {
		return "", fmt.Errorf("found %d client methods making a round trip, the Session interface has %d call methods", len(clients), nsess)
	}
	b.WriteString("(* csession.go *)\nDefinition gen_client : list cmethod :=\n  [")
	for k, m := range clients {
		if k > 0 {
			b.WriteString(";\n   ")
		}
		fmt.Fprintf(&b, "{| cm_name := %q; cm_params := %s; cm_variadic := %v; cm_results := %s;\n      cm_guards := [%s];\n      cm_req := %q; cm_fields := %s;\n      cm_rep := %q; cm_unexpected := %q;\n      cm_res := [%s]; cm_err := %s |}",
			m.name, dspKinds(m.params), m.variadic, dspKinds(m.results), strings.Join(m.guards, "; "),
			m.req, dspFields(m.fields), m.rep, m.unexpected, strings.Join(m.res, "; "), m.errExpr)
	}
	b.WriteString("].\n\n")

	// ---- server: the Handler SSession returns
	hT, sessField, msizeField, err := dspFindHandler(c, sessT)
	if err != nil {
		return "", err
	}
	var fd *ast.FuncDecl
	for _, m := range dspMethodsOf(c, hT) {
		if m.Name.Name == "Handle" {
			fd = m
		}
	}
	if fd == nil {
		return "", fmt.Errorf("%s has no Handle method", hT.Obj().Name())
	}
	recv := dspRecvObj(c, fd)
	hps := dspParamObjs(c, fd.Type)
	if recv == nil || len(hps) != 2 || hps[0] == nil || hps[1] == nil {
		return "", fmt.Errorf("Handle: expected a named receiver and two named parameters")
	}
	// prelude: any number of `x := recv.field` aliases, in any order, then the type switch on the message
	alias := map[types.Object]*types.Var{}
	var ts *ast.TypeSwitchStmt
	for k, st := range fd.Body.List {
		if t, ok := st.(*ast.TypeSwitchStmt); ok {
			if k != len(fd.Body.List)-1 {
				return "", fmt.Errorf("Handle: statements follow the type switch")
			}
			ts = t
			break
		}
		as, ok := st.(*ast.AssignStmt)
		if !ok || as.Tok != token.DEFINE || len(as.Lhs) != 1 || len(as.Rhs) != 1 {
			return "", fmt.Errorf("Handle: statement %d is neither `x := receiver.field` nor the type switch", k)
		}
		sel, ok := dspParen(as.Rhs[0]).(*ast.SelectorExpr)
		if !ok || !dspIs(c, sel.X, recv) {
			return "", fmt.Errorf("Handle: statement %d is not `x := receiver.field`", k)
		}
		fv, _ := c.Info.Uses[sel.Sel].(*types.Var)
		alias[c.Info.Defs[as.Lhs[0].(*ast.Ident)]] = fv
	}
	if ts == nil {
		return "", fmt.Errorf("Handle: no type switch")
	}
	denotes := func(field *types.Var) func(ast.Expr) bool {
		return func(e ast.Expr) bool {
			e = dspParen(e)
			if id, ok := e.(*ast.Ident); ok {
				return alias[dspObj(c, id)] == field && field != nil
			}
			if sel, ok := e.(*ast.SelectorExpr); ok {
				return dspIs(c, sel.X, recv) && c.Info.Uses[sel.Sel] == types.Object(field)
			}
			return false
		}
	}
	tas, ok := ts.Assign.(*ast.AssignStmt)
	if !ok || len(tas.Lhs) != 1 || len(tas.Rhs) != 1 {
		return "", fmt.Errorf("Handle: type switch does not bind the message (`switch m := msg.(type)`)")
	}
	if tae, ok := tas.Rhs[0].(*ast.TypeAssertExpr); !ok || tae.Type != nil || !dspIs(c, tae.X, hps[1]) {
		return "", fmt.Errorf("Handle: type switch is not on the message parameter")
	}
	symPos := tas.Lhs[0].Pos()
	env := &dspHandlerEnv{
		isSession: denotes(sessField),
		isMsize:   denotes(msizeField),
		isMsg: func(o types.Object) bool {
			v, ok := o.(*types.Var)
			return ok && v.Pos() == symPos
		},
		ctxObj: hps[0],
		iface:  iface,
	}
	var servers []*dspServer
	defaultErr := ""
	for _, st := range ts.Body.List {
		cc := st.(*ast.CaseClause)
		if cc.List == nil {
			if len(cc.Body) != 1 {
				return "", fmt.Errorf("Handle: default arm is not `return nil, Err…`")
			}
			ret, ok := cc.Body[0].(*ast.ReturnStmt)
			if !ok || len(ret.Results) != 2 || !dspIsNil(c, ret.Results[0]) {
				return "", fmt.Errorf("Handle: default arm is not `return nil, Err…`")
			}
			en, ok := dspPkgErr(c, ret.Results[1])
			if !ok {
				return "", fmt.Errorf("Handle: default arm does not return a package-level error variable")
			}
			defaultErr = en
			usedErrs[en] = true
			continue
		}
		if len(cc.List) != 1 {
			return "", fmt.Errorf("Handle: a case arm lists more than one type (%s)", c.Fset.Position(cc.Pos()))
		}
		s, err := dspServerCase(c, cc, env)
		if err != nil {
			return "", err
		}
		servers = append(servers, s)
	}
	if defaultErr == "" {
		return "", fmt.Errorf("Handle: no default arm")
	}
	b.WriteString("(* ssesssion.go, the Handle method of the Handler that SSession returns *)\nDefinition gen_server : list scase :=\n  [")
	for k, s := range servers {
		if k > 0 {
			b.WriteString(";\n   ")
		}
		fmt.Fprintf(&b, "{| sc_msg := %q; sc_method := %q; sc_args := [%s]; sc_nres := %d;\n      sc_rep := %q; sc_rfields := %s |}",
			s.msg, s.method, strings.Join(s.args, "; "), s.nres, s.rep, dspFields(s.rfields))
	}
	b.WriteString("].\n\n")
	fmt.Fprintf(&b, "Definition gen_server_default_err : string := %q.\n\n", defaultErr)

	// ---- error names
	b.WriteString("(* errors.go: Ename of the Err* variables the two layers return *)\nDefinition gen_errors : list (string * list N) :=\n  [")
	var en []string
	for n := range usedErrs {
		en = append(en, n)
	}
	sortStrings(en)
	for k, n := range en {
		txt, err := dspErrEname(c, n)
		if err != nil {
			return "", err
		}
		if k > 0 {
			b.WriteString(";\n   ")
		}
		fmt.Fprintf(&b, "(%q, %s%%N) (* %q *)", n, coqStringN(txt), txt)
	}
	b.WriteString("].\n\n")

	// ---- the goroutines that carry a call (Model/Flow.v)
	ff, err := dspFlowFacts(c, clientT, msgT)
	if err != nil {
		return "", err
	}
	b.WriteString("(* transport.go: does the client's owner loop perform WriteFcall itself inside the arm that takes a\n   caller's request (true), or does a goroutine started next to it do it (false)? *)\n")
	fmt.Fprintf(&b, "Definition gen_owner_loop_writes : bool := %v.\n\n", ff.ownerWrites)
	b.WriteString("(* transport.go / serveconn.go: which goroutine blocks on which hand-off (the structure Model/Flow.v abstracts).\n   Each entry: (fact, holds?).  Channel capacities by ROLE: (role, capacity). *)\n")
	b.WriteString("Definition gen_flow_facts : list (string * bool) :=\n  [")
	for k, f := range ff.facts {
		if k > 0 {
			b.WriteString(";\n   ")
		}
		fmt.Fprintf(&b, "(%q, %v)", f.name, f.holds)
	}
	b.WriteString("].\n")
	b.WriteString("Definition gen_flow_chan_caps : list (string * N) :=\n  [")
	for k, f := range ff.caps {
		if k > 0 {
			b.WriteString("; ")
		}
		fmt.Fprintf(&b, "(%q, %d%%N)", f.name, f.cap)
	}
	b.WriteString("].\n")
	return b.String(), nil
}

func sortStrings(a []string) {
	for i := 1; i < len(a); i++ {
		for j := i; j > 0 && a[j] < a[j-1]; j-- {
			a[j], a[j-1] = a[j-1], a[j]
		}
	}
}

// coqStringN: a byte list as a Coq list literal of N numerals (own copy: generators are independent).
func coqStringN(s string) string {
	var b strings.Builder
	b.WriteString("[")
	for i := 0; i < len(s); i++ {
		if i > 0 {
			b.WriteString("; ")
		}
		fmt.Fprintf(&b, "%d", s[i])
	}
	b.WriteString("]")
	return b.String()
}
