package main

// GenRamfsLocks.v (property C18): a syntactic lockset analysis of package
// ramfs.  For every access to a field that sessions share - FileEnt.nref,
// .children, .Info, .Data and fServer.lastpath - it records how the access is
// protected at that point of the function:
//
//	"lock"   the enclosing function holds <obj>.Lock() there (Lock/Unlock pairs
//	         and `defer <obj>.Unlock()` are tracked statement by statement);
//	"atomic" the field's address is passed to a sync/atomic function;
//	"fresh"  <obj> is a local variable made by &FileEnt{...} in this function
//	         (not yet published);
//	"NONE"   nothing protects it.
//
// A method that reads its receiver's shared fields without locking (IsDir) is a
// "caller holds the lock" helper: the access is attributed to every call site
// <obj>.M() in the package, with the lock state at that call site; a helper
// without call sites is reported "NONE" itself.  Test files and verif hooks are
// not analysed.  Unknown shapes (go statements, function literals, a lock taken
// in one branch only, Lock on something that is not a plain selector chain) are
// an error: the tie is broken rather than guessed.

import (
	"fmt"
	"go/ast"
	"go/parser"
	"go/printer"
	"go/token"
	"os"
	"path/filepath"
	"sort"
	"strings"
)

func init() { register("GenRamfsLocks.v", genRamfsLocks) }

var ramfsShared = map[string]bool{"nref": true, "children": true, "Info": true, "Data": true, "lastpath": true}

type lockAccess struct {
	fn, obj, field, how, via string
	line                     int
}

type lockAnalysis struct {
	fset     *token.FileSet
	fn       string
	recv     string // receiver variable name of the current method ("" for functions)
	fresh    map[string]bool
	out      []lockAccess
	calls    []lockCall // method calls seen: obj.M() with lock state
	recvOpen []lockAccess // unlocked accesses to the receiver's own fields
	err      error
}

type lockCall struct {
	fn, obj, method string
	held            bool
	line            int
}

func (a *lockAnalysis) str(e ast.Expr) string {
	var b strings.Builder
	printer.Fprint(&b, a.fset, e)
	return b.String()
}

func (a *lockAnalysis) fail(pos token.Pos, format string, args ...interface{}) {
	if a.err == nil {
		a.err = fmt.Errorf("%s: %s: %s", a.fset.Position(pos), a.fn, fmt.Sprintf(format, args...))
	}
}

func plainChain(e ast.Expr) bool {
	switch x := e.(type) {
	case *ast.Ident:
		return true
	case *ast.SelectorExpr:
		return plainChain(x.X)
	}
	return false
}

func copyHeld(h map[string]bool) map[string]bool {
	c := map[string]bool{}
	for k, v := range h {
		c[k] = v
	}
	return c
}

func sameHeld(a, b map[string]bool) bool {
	if len(a) != len(b) {
		return false
	}
	for k := range a {
		if !b[k] {
			return false
		}
	}
	return true
}

// lockCallOf: is the statement `X.Lock()` / `X.Unlock()`?
func lockCallOf(e ast.Expr) (obj ast.Expr, name string, ok bool) {
	c, isCall := e.(*ast.CallExpr)
	if !isCall || len(c.Args) != 0 {
		return nil, "", false
	}
	s, isSel := c.Fun.(*ast.SelectorExpr)
	if !isSel || (s.Sel.Name != "Lock" && s.Sel.Name != "Unlock") {
		return nil, "", false
	}
	return s.X, s.Sel.Name, true
}

// exprs records the shared-field accesses and method calls inside an expression.
func (a *lockAnalysis) exprs(n ast.Node, held map[string]bool, atomic bool) {
	if n == nil {
		return
	}
	ast.Inspect(n, func(x ast.Node) bool {
		switch e := x.(type) {
		case *ast.FuncLit:
			a.fail(e.Pos(), "function literal: shape not recognised")
			return false
		case *ast.CallExpr:
			if s, ok := e.Fun.(*ast.SelectorExpr); ok {
				if id, ok := s.X.(*ast.Ident); ok && id.Name == "atomic" {
					for _, arg := range e.Args {
						a.exprs(arg, held, true)
					}
					return false
				}
				if s.Sel.Name == "Lock" || s.Sel.Name == "Unlock" {
					a.fail(e.Pos(), "Lock/Unlock inside an expression: shape not recognised")
					return false
				}
				if plainChain(s.X) || isIndexChain(s.X) {
					obj := a.str(s.X)
					a.calls = append(a.calls, lockCall{a.fn, obj, s.Sel.Name, held[obj], a.fset.Position(e.Pos()).Line})
				}
			}
		case *ast.SelectorExpr:
			if ramfsShared[e.Sel.Name] {
				obj := a.str(e.X)
				how := "NONE"
				switch {
				case atomic:
					how = "atomic"
				case held[obj]:
					how = "lock"
				case a.fresh[obj]:
					how = "fresh"
				}
				acc := lockAccess{fn: a.fn, obj: obj, field: e.Sel.Name, how: how, line: a.fset.Position(e.Pos()).Line}
				if how == "NONE" && obj == a.recv && a.recv != "" {
					a.recvOpen = append(a.recvOpen, acc)
				} else {
					a.out = append(a.out, acc)
				}
			}
		}
		return true
	})
}

func isIndexChain(e ast.Expr) bool {
	switch x := e.(type) {
	case *ast.IndexExpr:
		return plainChain(x.X) || isIndexChain(x.X)
	case *ast.SelectorExpr:
		return isIndexChain(x.X)
	}
	return false
}

func endsInReturn(b *ast.BlockStmt) bool {
	if b == nil || len(b.List) == 0 {
		return false
	}
	switch b.List[len(b.List)-1].(type) {
	case *ast.ReturnStmt, *ast.BranchStmt:
		return true
	}
	return false
}

func (a *lockAnalysis) block(b *ast.BlockStmt, held map[string]bool) {
	if b == nil {
		return
	}
	for _, st := range b.List {
		a.stmt(st, held)
	}
}

// branch analyses a nested body with a copy of the lock set and requires it to
// be balanced (unless it leaves the function or loop).
func (a *lockAnalysis) branch(b *ast.BlockStmt, held map[string]bool) {
	if b == nil {
		return
	}
	h := copyHeld(held)
	a.block(b, h)
	if !endsInReturn(b) && !sameHeld(h, held) {
		a.fail(b.Pos(), "lock set differs at the end of a nested block: shape not recognised")
	}
}

func (a *lockAnalysis) stmt(st ast.Stmt, held map[string]bool) {
	switch s := st.(type) {
	case *ast.ExprStmt:
		if obj, name, ok := lockCallOf(s.X); ok {
			if !plainChain(obj) {
				a.fail(s.Pos(), "%s on %s: shape not recognised", name, a.str(obj))
				return
			}
			k := a.str(obj)
			if name == "Lock" {
				if held[k] {
					a.fail(s.Pos(), "%s.Lock() while already held (self-deadlock)", k)
				}
				held[k] = true
			} else {
				if !held[k] {
					a.fail(s.Pos(), "%s.Unlock() without the lock", k)
				}
				delete(held, k)
			}
			return
		}
		a.exprs(s.X, held, false)
	case *ast.DeferStmt:
		if obj, name, ok := lockCallOf(s.Call); ok && name == "Unlock" {
			if !held[a.str(obj)] {
				a.fail(s.Pos(), "defer %s.Unlock() without the lock", a.str(obj))
			}
			return // held until the function returns
		}
		a.exprs(s.Call, held, false)
	case *ast.GoStmt:
		a.fail(s.Pos(), "go statement: shape not recognised")
	case *ast.AssignStmt:
		// fresh objects: x := &FileEnt{...}
		if s.Tok == token.DEFINE && len(s.Lhs) == 1 && len(s.Rhs) == 1 {
			if id, ok := s.Lhs[0].(*ast.Ident); ok {
				rhs := s.Rhs[0]
				if u, ok := rhs.(*ast.UnaryExpr); ok && u.Op == token.AND {
					rhs = u.X
				}
				if cl, ok := rhs.(*ast.CompositeLit); ok {
					if t, ok := cl.Type.(*ast.Ident); ok && t.Name == "FileEnt" {
						a.fresh[id.Name] = true
					}
				}
			}
		}
		for _, e := range s.Rhs {
			a.exprs(e, held, false)
		}
		for _, e := range s.Lhs {
			a.exprs(e, held, false)
		}
	case *ast.IncDecStmt:
		a.exprs(s.X, held, false)
	case *ast.ReturnStmt:
		for _, e := range s.Results {
			a.exprs(e, held, false)
		}
	case *ast.DeclStmt:
		a.exprs(s.Decl, held, false)
	case *ast.BlockStmt:
		a.block(s, held)
	case *ast.IfStmt:
		if s.Init != nil {
			a.stmt(s.Init, held)
		}
		a.exprs(s.Cond, held, false)
		a.branch(s.Body, held)
		switch e := s.Else.(type) {
		case *ast.BlockStmt:
			a.branch(e, held)
		case *ast.IfStmt:
			a.stmt(e, copyHeld(held))
		}
	case *ast.ForStmt:
		if s.Init != nil {
			a.stmt(s.Init, held)
		}
		a.exprs(s.Cond, held, false)
		if s.Post != nil {
			a.stmt(s.Post, held)
		}
		a.branch(s.Body, held)
	case *ast.RangeStmt:
		a.exprs(s.X, held, false)
		a.branch(s.Body, held)
	case *ast.SwitchStmt:
		if s.Init != nil {
			a.stmt(s.Init, held)
		}
		a.exprs(s.Tag, held, false)
		for _, c := range s.Body.List {
			cc := c.(*ast.CaseClause)
			for _, e := range cc.List {
				a.exprs(e, held, false)
			}
			a.branch(&ast.BlockStmt{List: cc.Body, Lbrace: cc.Pos()}, held)
		}
	case *ast.BranchStmt, *ast.EmptyStmt:
	default:
		a.fail(st.Pos(), "statement %T: shape not recognised", st)
	}
}

func genRamfsLocks(c *Ctx) (string, error) {
	dir := filepath.Join(c.Repo, "ramfs")
	fset := token.NewFileSet()
	pkgs, err := parser.ParseDir(fset, dir, func(fi os.FileInfo) bool {
		n := fi.Name()
		return !strings.HasSuffix(n, "_test.go") && !strings.HasPrefix(n, "verif_hooks")
	}, 0)
	if err != nil {
		return "", err
	}
	pkg, ok := pkgs["ramfs"]
	if !ok {
		return "", fmt.Errorf("package ramfs not found in %s", dir)
	}
	var fnames []string
	for n := range pkg.Files {
		fnames = append(fnames, n)
	}
	sort.Strings(fnames)

	var all []lockAccess
	var calls []lockCall
	helpers := map[string][]lockAccess{} // method name -> its unlocked receiver accesses
	nfuncs := 0
	for _, fname := range fnames {
		for _, d := range pkg.Files[fname].Decls {
			fd, ok := d.(*ast.FuncDecl)
			if !ok || fd.Body == nil {
				continue
			}
			nfuncs++
			a := &lockAnalysis{fset: fset, fresh: map[string]bool{}}
			a.fn = fd.Name.Name
			if fd.Recv != nil && len(fd.Recv.List) == 1 {
				t := fd.Recv.List[0].Type
				if s, ok := t.(*ast.StarExpr); ok {
					t = s.X
				}
				if id, ok := t.(*ast.Ident); ok {
					a.fn = id.Name + "." + fd.Name.Name
				}
				if len(fd.Recv.List[0].Names) == 1 {
					a.recv = fd.Recv.List[0].Names[0].Name
				}
			}
			held := map[string]bool{}
			a.block(fd.Body, held)
			if a.err != nil {
				return "", a.err
			}
			all = append(all, a.out...)
			calls = append(calls, a.calls...)
			if len(a.recvOpen) > 0 {
				if _, dup := helpers[fd.Name.Name]; dup {
					return "", fmt.Errorf("two methods named %s read their receiver unlocked: shape not recognised", fd.Name.Name)
				}
				helpers[fd.Name.Name] = a.recvOpen
			}
		}
	}
	// attribute helper accesses to their call sites
	var hnames []string
	for m := range helpers {
		hnames = append(hnames, m)
	}
	sort.Strings(hnames)
	for _, m := range hnames {
		sites := 0
		for _, cl := range calls {
			if cl.method != m {
				continue
			}
			sites++
			for _, acc := range helpers[m] {
				how := "NONE"
				if cl.held {
					how = "lock"
				}
				all = append(all, lockAccess{fn: cl.fn, obj: cl.obj, field: acc.field, how: how, via: acc.fn, line: cl.line})
			}
		}
		if sites == 0 {
			all = append(all, helpers[m]...)
		}
	}
	if nfuncs == 0 || len(all) == 0 {
		return "", fmt.Errorf("no functions or no shared-field accesses found in %s: shape not recognised", dir)
	}
	sort.SliceStable(all, func(i, j int) bool {
		if all[i].fn != all[j].fn {
			return all[i].fn < all[j].fn
		}
		return all[i].line < all[j].line
	})
	var b strings.Builder
	b.WriteString("From Coq Require Import List String.\nImport ListNotations.\nLocal Open Scope string_scope.\n\n")
	b.WriteString("(* one access of package ramfs to a field shared between sessions *)\n")
	b.WriteString("Record lock_access := mkAccess { la_func : string; la_obj : string; la_field : string; la_how : string; la_via : string; la_line : nat }.\n\n")
	b.WriteString("Definition ramfs_accesses : list lock_access := [\n")
	for i, x := range all {
		sep := ";"
		if i == len(all)-1 {
			sep = ""
		}
		fmt.Fprintf(&b, "  mkAccess %q %q %q %q %q %d%s\n", x.fn, x.obj, x.field, x.how, x.via, x.line, sep)
	}
	b.WriteString("].\n")
	return b.String(), nil
}
