package main

// GenPath.v: the bodies of path.go's helpers translated by gofn.go.  The
// functions are found by their exported names (API of the package, which the
// property is about); everything inside them is recognised by what it is.

import (
	"fmt"
	"go/types"
	"strings"
)

func init() { register("GenPath.v", genPath) }

func genPath(c *Ctx) (string, error) {
	t := &fnTr{info: c.Info, pkg: c.Pkg, prefix: "gen_", funcs: map[types.Object]string{}, lib: stdLib}
	var b strings.Builder
	b.WriteString("From Coq Require Import List NArith ZArith Bool.\n")
	b.WriteString("From P9 Require Import Base.GoRt Model.Path.\n")
	b.WriteString("Import ListNotations.\n\n")
	b.WriteString("(* path.go, translated function by function (see harness/cmd/gen/gofn.go for the subset and the\n")
	b.WriteString("   semantics of the translation).  Model/Path.v is imported for its models of the Go LIBRARY functions\n")
	b.WriteString("   (path.Join/Clean/IsAbs, strings.Split/Trim) only. *)\n\n")
	// callees before callers
	for _, name := range []string{"ValidPath", "NormalizePath", "CreateName", "WalkName", "ToWalk"} {
		fd := c.FuncDecl("", name)
		if fd == nil {
			return "", fmt.Errorf("function %s not found", name)
		}
		s, err := t.function(fd)
		if err != nil {
			return "", err
		}
		b.WriteString(s + "\n")
	}
	return b.String(), nil
}
