package main

// GenAllocTag.v: the client's tag allocator translated by gofn.go.  The function is unexported, so it
// is found by what it is: the package-level function that takes a map keyed by the tag type and a tag
// and returns (tag, error).

import (
	"fmt"
	"go/ast"
	"go/types"
	"strings"
)

func init() { register("GenAllocTag.v", genAllocTag) }

func genAllocTag(c *Ctx) (string, error) {
	tagT := c.Pkg.Scope().Lookup("Tag")
	if tagT == nil {
		return "", fmt.Errorf("type Tag not found")
	}
	errT := types.Universe.Lookup("error").Type()
	var found []*ast.FuncDecl
	for _, f := range c.Files {
		for _, d := range f.Decls {
			fd, ok := d.(*ast.FuncDecl)
			if !ok || fd.Recv != nil || fd.Body == nil {
				continue
			}
			sig := c.Info.Defs[fd.Name].Type().(*types.Signature)
			if sig.Results().Len() != 2 || !types.Identical(sig.Results().At(0).Type(), tagT.Type()) || !types.Identical(sig.Results().At(1).Type(), errT) {
				continue
			}
			hasMap, hasTag := false, false
			for i := 0; i < sig.Params().Len(); i++ {
				pt := sig.Params().At(i).Type()
				if m, ok := pt.Underlying().(*types.Map); ok && types.Identical(m.Key(), tagT.Type()) {
					hasMap = true
				}
				if types.Identical(pt, tagT.Type()) {
					hasTag = true
				}
			}
			if hasMap && hasTag {
				found = append(found, fd)
			}
		}
	}
	if len(found) != 1 {
		return "", fmt.Errorf("expected exactly one function (map[Tag]..., Tag) (Tag, error), found %d", len(found))
	}
	t := &fnTr{info: c.Info, pkg: c.Pkg, prefix: "gen_", funcs: map[types.Object]string{}, lib: stdLib}
	s, err := t.function(found[0])
	if err != nil {
		return "", err
	}
	// a stable name whatever the function is called in the source
	s = strings.ReplaceAll(s, "gen_"+found[0].Name.Name, "gen_allocateTag")
	var b strings.Builder
	b.WriteString("From Coq Require Import List NArith ZArith Bool.\n")
	b.WriteString("From P9 Require Import Base.GoRt.\n")
	b.WriteString("Import ListNotations.\n\n")
	fmt.Fprintf(&b, "(* transport.go, func %s, translated by harness/cmd/gen/gofn.go.  The map is the list of its keys\n   (the function only probes it and takes its length). *)\n\n", found[0].Name.Name)
	b.WriteString(s)
	return b.String(), nil
}
