// C08 / C13 harness: drives the real server session (p9p.SFileSys) with
// random operation sequences over fids {0,1,2,3,100,NOFID} against a scripted,
// instrumented FileSys whose every call outcome comes from per-operation
// tokens.  After every operation it reads the real fid table through the
// verif hook and prints result class, table and file-system calls; the Coq
// model (Model/Session.v, extracted) must predict exactly that line.
//
// Independently of the model it applies direct oracles written from the
// property texts: a reference fid table (C08), a release counter per handle
// and a use-after-release monitor (C13), and "every operation returns and
// leaves no fid locked".
package main

import (
	"context"
	"errors"
	"flag"
	"fmt"
	"sort"
	"strings"
	"sync"
	"sync/atomic"
	"time"

	p9p "github.com/frobnitzem/go-p9p"

	"verifharness/internal/prng"
	"verifharness/internal/rep"
	"verifharness/internal/sx"
)

var propFlag = flag.String("prop", "all", "report oracle failures of: C08 | C13 | all")
var hangMs = flag.Int("hang-ms", 6000, "an operation that has not returned after this many ms counts as hung")
var workers = flag.Int("workers", 12, "sequences executed concurrently")

const NOFID = uint32(p9p.NOFID)

var fidPool = []uint32{0, 1, 2, 3, 100, NOFID}
var errFS = p9p.MessageRerror{Ename: "fs-error"}

// fsErr: what a failing file-system call returns - the context's own error when the request
// context is already done (a file system that gives up on a flushed / timed-out request).
func fsErr(ctx context.Context) error {
	if e := ctx.Err(); e != nil {
		return e
	}
	return errFS
}

// ---------------------------------------------------------------- tokens, ops

type tok struct {
	fail int
	dir  bool
	nq   int
}

func (t tok) num() int64 {
	d := 0
	if t.dir {
		d = 1
	}
	return int64(t.fail + 8*d + 16*t.nq)
}

type opT struct {
	kind   string
	fid    uint32
	fid2   uint32 // afid / newfid
	names  []string
	name   string
	mode   uint8
	buf    int // read/write buffer: 0 nil, 1 empty (non-nil), 2 sixty-four bytes
	ctxk   int // request context at call time: 0 live, 1 cancelled, 2 deadline expired
	toks   [3]tok
	extra  []tok // further tokens (pair cases: the second operation's calls continue the numbering)
	result string
}

func toksSx(ts [3]tok) sx.S { return sx.L(sx.I(ts[0].num()), sx.I(ts[1].num()), sx.I(ts[2].num())) }

func (o *opT) allToks() sx.S {
	l := []sx.S{}
	for _, t := range append(o.toks[:], o.extra...) {
		l = append(l, sx.I(t.num()))
	}
	return sx.List(l)
}

func (o *opT) sexp() sx.S {
	f := func(v uint32) sx.S { return sx.U(uint64(v)) }
	c := sx.I(int64(o.ctxk)) // trailing: the model ignores it (the session never looks at the context)
	switch o.kind {
	case "auth":
		return sx.L(sx.Sym("auth"), f(o.fid), o.allToks(), c)
	case "attach":
		return sx.L(sx.Sym("attach"), f(o.fid), f(o.fid2), o.allToks(), c)
	case "walk":
		return sx.L(sx.Sym("walk"), f(o.fid), f(o.fid2), sx.Strs(o.names), o.allToks(), c)
	case "open":
		return sx.L(sx.Sym("open"), f(o.fid), sx.I(int64(o.mode)), o.allToks(), c)
	case "create":
		return sx.L(sx.Sym("create"), f(o.fid), sx.Str(o.name), sx.I(int64(o.mode)), o.allToks(), c)
	case "read", "write":
		return sx.L(sx.Sym(o.kind), f(o.fid), sx.I(int64(o.buf)), o.allToks(), c)
	case "stop":
		return sx.L(sx.Sym("stop"), o.allToks())
	default: // stat wstat clunk remove
		return sx.L(sx.Sym(o.kind), f(o.fid), o.allToks(), c)
	}
}

func (o *opT) String() string { return sx.String(o.sexp()) }

// ---------------------------------------------------------------- scripted file system

type callRec struct {
	name string
	id   int
	arg  int // walk: number of names; open: mode; else -1
	ok   bool
	h    *hEnt
}

type world struct {
	mu      sync.Mutex
	nextID  int
	toks    []tok
	cur     int
	calls   []callRec
	handed  []*hEnt // during the current operation
	all     []*hEnt
	events  []string // C13 monitor events during the current operation: "key|text"
	attachN int
	// gate: the next file-system call after arming blocks (after it has been
	// logged) until gateOpen is closed; entered tells the driver it is inside
	gateArmed  bool
	gateHit    bool
	entered    chan struct{}
	gateOpen   chan struct{}
	stopActive bool // Stop is running while an operation is held in the file system
}

// section locks the world for the duration of one file-system call; the
// returned function unlocks it and, if this call was chosen by the gate,
// keeps the caller inside the call until the gate opens.
func (w *world) section() func() {
	w.mu.Lock()
	return func() {
		hit := w.gateHit
		w.gateHit = false
		ent, rel := w.entered, w.gateOpen
		w.mu.Unlock()
		if hit {
			ent <- struct{}{}
			<-rel
		}
	}
}

func (w *world) take() tok {
	t := tok{}
	if w.cur < len(w.toks) {
		t = w.toks[w.cur]
	}
	w.cur++
	return t
}

func (w *world) newHandle(dir bool) *hEnt {
	h := &hEnt{w: w, id: w.nextID, dir: dir}
	w.nextID++
	w.handed = append(w.handed, h)
	w.all = append(w.all, h)
	return h
}

// use: a call arrived at handle h (or at a File / ReadNext obtained from it).
func (w *world) use(h *hEnt, name string, arg int) (tok, *callRec) {
	var t tok
	if !(w.stopActive && name == "clunk") {
		// (while Stop runs beside an operation in flight, Clunk calls - whose result both
		// ignore - do not consume the operation's tokens)
		t = w.take()
	}
	if w.gateArmed {
		w.gateArmed, w.gateHit = false, true
	}
	if h != nil && h.released > 0 {
		w.events = append(w.events, fmt.Sprintf("session.use-after-release:%s|%s called on entry %d after its release (%s)", name, name, h.id, strings.Join(h.causes, ",")))
	}
	id := 0
	if h != nil {
		id = h.id
	}
	w.calls = append(w.calls, callRec{name: name, id: id, arg: arg, ok: t.fail == 0, h: h})
	return t, &w.calls[len(w.calls)-1]
}

func (w *world) release(h *hEnt, cause string) {
	h.released++
	h.causes = append(h.causes, cause)
	if h.released == 2 {
		w.events = append(w.events, fmt.Sprintf("session.release.double:%s|entry %d released twice (%s)", cause, h.id, strings.Join(h.causes, ",")))
	}
}

func (w *world) RequireAuth(ctx context.Context) bool { return false }
func (w *world) Auth(ctx context.Context, uname, aname string) (p9p.AuthFile, error) {
	return nil, errors.New("no auth")
}
func (w *world) Attach(ctx context.Context, uname, aname string, af p9p.AuthFile) (p9p.Dirent, error) {
	defer w.section()()
	t, _ := w.use(nil, "attach", -1)
	if t.fail >= 2 { // no root entry, no error
		return nil, nil
	}
	if t.fail != 0 {
		return nil, fsErr(ctx)
	}
	return w.newHandle(t.dir), nil
}

type hEnt struct {
	w         *world
	id        int
	dir       bool
	released  int
	causes    []string
	everBound bool
}

func (h *hEnt) Qid() p9p.Qid {
	// identity is per entry object, not per qid: two entries in three share the path 7
	q := p9p.Qid{Path: 7}
	if h.id%3 == 0 {
		q.Path = uint64(1000 + h.id)
	}
	if h.dir {
		q.Type = p9p.QTDIR
	}
	return q
}

func (h *hEnt) OpenDir(ctx context.Context) (p9p.ReadNext, error) {
	defer h.w.section()()
	t, _ := h.w.use(h, "opendir", -1)
	switch {
	case t.fail == 1:
		return nil, fsErr(ctx)
	case t.fail >= 2:
		return nil, nil
	}
	return func(ctx context.Context) ([]p9p.Dir, error) {
		defer h.w.section()()
		t, _ := h.w.use(h, "next", -1)
		if t.fail != 0 {
			return nil, fsErr(ctx)
		}
		return nil, nil
	}, nil
}

func (h *hEnt) Walk(ctx context.Context, names ...string) ([]p9p.Qid, p9p.Dirent, error) {
	defer h.w.section()()
	t, _ := h.w.use(h, "walk", len(names))
	if t.fail == 1 {
		return nil, nil, fsErr(ctx)
	}
	nq := t.nq
	if nq > len(names) {
		nq = len(names)
	}
	qids := make([]p9p.Qid, nq)
	if t.fail >= 2 {
		return qids, nil, nil
	}
	if nq < len(names) {
		return qids, dummyEnt{h.w}, nil
	}
	return qids, h.w.newHandle(t.dir), nil
}

func (h *hEnt) Create(ctx context.Context, name string, perm uint32, mode p9p.Flag) (p9p.Dirent, p9p.File, error) {
	defer h.w.section()()
	t, _ := h.w.use(h, "create", -1)
	switch t.fail {
	case 1:
		return nil, nil, fsErr(ctx)
	case 2:
		return nil, nil, nil
	case 3:
		return h.w.newHandle(t.dir), nil, nil
	case 4: // no entry, but a File
		return nil, &hFile{h}, nil
	}
	n := h.w.newHandle(t.dir)
	h.w.release(h, "create") // Dirent contract: a successful Create consumes the parent's handle
	return n, &hFile{n}, nil
}

func (h *hEnt) Open(ctx context.Context, mode p9p.Flag) (p9p.File, error) {
	defer h.w.section()()
	t, _ := h.w.use(h, "open", int(mode))
	switch {
	case t.fail == 1:
		return nil, fsErr(ctx)
	case t.fail >= 2:
		return nil, nil
	}
	return &hFile{h}, nil
}

func (h *hEnt) simple(ctx context.Context, name string) error {
	defer h.w.section()()
	t, _ := h.w.use(h, name, -1)
	if name == "clunk" || name == "remove" {
		h.w.release(h, name)
	}
	if t.fail != 0 {
		return fsErr(ctx)
	}
	return nil
}
func (h *hEnt) Remove(ctx context.Context) error           { return h.simple(ctx, "remove") }
func (h *hEnt) Clunk(ctx context.Context) error            { return h.simple(ctx, "clunk") }
func (h *hEnt) WStat(ctx context.Context, d p9p.Dir) error { return h.simple(ctx, "wstat") }
func (h *hEnt) Stat(ctx context.Context) (p9p.Dir, error) {
	return p9p.Dir{Qid: h.Qid()}, h.simple(ctx, "stat")
}

type hFile struct{ h *hEnt }

func (f *hFile) rw(ctx context.Context, name string) (int, error) {
	defer f.h.w.section()()
	t, _ := f.h.w.use(f.h, name, -1)
	if t.fail != 0 {
		return 0, fsErr(ctx)
	}
	return 0, nil
}
func (f *hFile) Read(ctx context.Context, p []byte, off int64) (int, error) { return f.rw(ctx, "read") }
func (f *hFile) Write(ctx context.Context, p []byte, off int64) (int, error) {
	return f.rw(ctx, "write")
}
func (f *hFile) IOUnit() int { return 0 }

// dummyEnt is what a partial walk returns beside its qids (like ramfs's
// noHandle): not a resource; the session must not call it.
type dummyEnt struct{ w *world }

func (d dummyEnt) bad(name string) {
	d.w.mu.Lock()
	d.w.events = append(d.w.events, "session.dummy-entry-used:"+name+"|"+name+" called on the placeholder entry of a partial walk")
	d.w.mu.Unlock()
}
func (d dummyEnt) Qid() p9p.Qid { return p9p.Qid{} }
func (d dummyEnt) OpenDir(ctx context.Context) (p9p.ReadNext, error) {
	d.bad("opendir")
	return nil, fsErr(ctx)
}
func (d dummyEnt) Walk(ctx context.Context, n ...string) ([]p9p.Qid, p9p.Dirent, error) {
	d.bad("walk")
	return nil, nil, fsErr(ctx)
}
func (d dummyEnt) Create(ctx context.Context, name string, perm uint32, mode p9p.Flag) (p9p.Dirent, p9p.File, error) {
	d.bad("create")
	return nil, nil, fsErr(ctx)
}
func (d dummyEnt) Open(ctx context.Context, mode p9p.Flag) (p9p.File, error) {
	d.bad("open")
	return nil, fsErr(ctx)
}
func (d dummyEnt) Remove(ctx context.Context) error           { d.bad("remove"); return errFS }
func (d dummyEnt) Clunk(ctx context.Context) error            { d.bad("clunk"); return errFS }
func (d dummyEnt) WStat(ctx context.Context, x p9p.Dir) error { d.bad("wstat"); return errFS }
func (d dummyEnt) Stat(ctx context.Context) (p9p.Dir, error)  { d.bad("stat"); return p9p.Dir{}, errFS }

// hangWait: how long an operation may take before it counts as hung.  Generous - until the run
// has already seen 25 hangs: the tree is then known to violate the property and the remaining
// cases only need to finish (a lock leak would otherwise cost six seconds per sequence).
var hangsSeen int64

func hangWait() time.Duration {
	if atomic.LoadInt64(&hangsSeen) >= 25 {
		return 1500 * time.Millisecond
	}
	return time.Duration(*hangMs) * time.Millisecond
}

// ---------------------------------------------------------------- executing one operation

type outcome struct {
	err      error
	n        int // number of qids (walk)
	panicked string
}

var errTexts = map[string]string{
	"unknown fid": "unknownfid", "duplicate fid": "dupfid", "Non-normalized path": "badpath",
	"not a directory": "notdir", "invalid result": "nilres", "fs-error": "fs", "no file open": "nofile",
	"read prohibited": "noread", "write prohibited": "nowrite", "already open": "isopen",
	"illegal filename": "badname", "create in non-directory": "crnondir", "no auth": "noauth",
	"invalid": "invalid", "context canceled": "fs", "context deadline exceeded": "fs",
}

func classify(err error) string {
	s := err.Error()
	for strings.HasPrefix(s, "9p: ") {
		s = s[4:]
	}
	if c, ok := errTexts[s]; ok {
		return c
	}
	var b strings.Builder
	for _, r := range s {
		if (r >= 'a' && r <= 'z') || (r >= 'A' && r <= 'Z') || (r >= '0' && r <= '9') {
			b.WriteRune(r)
		} else {
			b.WriteByte('_')
		}
	}
	return "other_" + b.String()
}

func invoke(ctx context.Context, s p9p.Session, o *opT) outcome {
	switch o.ctxk {
	case 1:
		c, cancel := context.WithCancel(ctx)
		cancel()
		ctx = c
	case 2:
		c, cancel := context.WithDeadline(ctx, time.Unix(1, 0))
		defer cancel()
		ctx = c
	}
	var rbuf, wbuf []byte
	switch o.buf {
	case 1:
		rbuf, wbuf = []byte{}, []byte{}
	case 2:
		rbuf, wbuf = make([]byte, 64), []byte("0123456789abcdef")
	}
	switch o.kind {
	case "auth":
		_, err := s.Auth(ctx, p9p.Fid(o.fid), "u", "a")
		return outcome{err: err, n: 0}
	case "attach":
		_, err := s.Attach(ctx, p9p.Fid(o.fid), p9p.Fid(o.fid2), "u", "a")
		return outcome{err: err, n: 0}
	case "walk":
		q, err := s.Walk(ctx, p9p.Fid(o.fid), p9p.Fid(o.fid2), o.names...)
		return outcome{err: err, n: len(q)}
	case "open":
		_, _, err := s.Open(ctx, p9p.Fid(o.fid), p9p.Flag(o.mode))
		return outcome{err: err, n: 0}
	case "create":
		_, _, err := s.Create(ctx, p9p.Fid(o.fid), o.name, 0644, p9p.Flag(o.mode))
		return outcome{err: err, n: 0}
	case "read":
		_, err := s.Read(ctx, p9p.Fid(o.fid), rbuf, 0)
		return outcome{err: err, n: 0}
	case "write":
		_, err := s.Write(ctx, p9p.Fid(o.fid), wbuf, 0)
		return outcome{err: err, n: 0}
	case "stat":
		_, err := s.Stat(ctx, p9p.Fid(o.fid))
		return outcome{err: err, n: 0}
	case "wstat":
		return outcome{err: s.WStat(ctx, p9p.Fid(o.fid), p9p.Dir{})}
	case "clunk":
		return outcome{err: s.Clunk(ctx, p9p.Fid(o.fid)), n: 0}
	case "remove":
		return outcome{err: s.Remove(ctx, p9p.Fid(o.fid)), n: 0}
	case "stop":
		s.Stop(nil)
		return outcome{err: nil, n: 0}
	}
	panic("unknown op " + o.kind)
}

// ---------------------------------------------------------------- reference fid table (C08 oracle)

type rbind struct {
	h    *hEnt
	open bool
	mode uint8
}

type failure struct {
	key, what string
	props     string // "C08", "C13", "C08,C13"
	upto      int    // ops[0..upto] reproduce it
}

type seqRun struct {
	w          *world
	sess       p9p.Session
	ref        map[uint32]*rbind
	stopped    bool
	ops        []*opT
	obs        []sx.S
	fails      []failure
	branches   []string
	hung       bool
	lockedSeen map[uint32]bool
	pair       string // "stopwait" / "queued": the last two operations ran at the same time
	inflight   string // kind of the operation that was in flight when Stop was called ("" = ordinary sequence)
	diverged   bool   // the reference table no longer describes the session (after the first C08 failure)
}

func validNames(ns []string) bool {
	lead := true
	for _, s := range ns {
		if s == "" || s == "." || strings.ContainsAny(s, "/\\") {
			return false
		}
		if s == ".." {
			if !lead {
				return false
			}
		} else {
			lead = false
		}
	}
	return true
}

func (r *seqRun) fail(props, key, what string) {
	if props == "C08" {
		// one report per sequence: later differences are consequences of the first
		if r.diverged {
			return
		}
		r.diverged = true
	}
	r.fails = append(r.fails, failure{key: key, what: what, props: props, upto: len(r.ops) - 1})
}

// callsOn returns the calls of the current operation with the given name.
func (w *world) callsNamed(name string) []callRec {
	var out []callRec
	for _, c := range w.calls {
		if c.name == name {
			out = append(out, c)
		}
	}
	return out
}

// oracle: compare what the session did in operation o with the reference
// fid table of the property text, then advance the reference.
func (r *seqRun) oracle(o *opT, out outcome, table []p9p.VerifFid) {
	w := r.w
	ok := out.err == nil
	k := o.kind
	must := func(cond bool, key, what string) {
		if !cond {
			r.fail("C08", "session."+key+":"+k, fmt.Sprintf("%s: %s", o.String(), what))
		}
	}
	noCalls := func(why string) {
		must(len(w.calls) == 0, "fs-call-on-rejected-op", fmt.Sprintf("%s, yet the file system was called (%d calls)", why, len(w.calls)))
	}
	errIs := func(class string) bool { return out.err != nil && classify(out.err) == class }
	b := r.ref[o.fid]
	bound := o.fid != NOFID && b != nil
	// every file-system call of this operation must go to the entry bound to
	// the operation's fid, or to an entry handed over during this operation
	allowed := map[*hEnt]bool{}
	if bound {
		allowed[b.h] = true
	}
	for _, h := range w.handed {
		allowed[h] = true
	}
	if k != "stop" {
		for _, c := range w.calls {
			if c.h != nil && !allowed[c.h] {
				must(false, "call-on-wrong-entry", fmt.Sprintf("%s called on entry %d, which is not the entry bound to fid %d", c.name, c.id, o.fid))
			}
		}
	}
	switch k {
	case "auth":
		noCalls("auth is not required")
	case "attach":
		switch {
		case o.fid2 != NOFID:
			must(!ok, "attach-with-afid", "attach with an afid that is not an auth fid succeeded")
			noCalls("attach with a non-auth afid")
		case o.fid == NOFID:
			must(!ok, "nofid", "operation on the reserved no-fid value succeeded")
			noCalls("attach onto NOFID")
		case bound:
			must(errIs("dupfid"), "dupfid", fmt.Sprintf("attach onto bound fid %d: want duplicate-fid error, got %v", o.fid, out.err))
			noCalls("attach onto a bound fid")
		default:
			cs := w.callsNamed("attach")
			must(len(cs) == 1, "attach-calls", fmt.Sprintf("FileSys.Attach called %d times", len(cs)))
			if len(cs) == 1 && cs[0].ok && len(w.handed) == 1 {
				must(ok, "attach-result", fmt.Sprintf("file system attached, session returned %v", out.err))
				r.ref[o.fid] = &rbind{h: w.handed[0]}
				w.handed[0].everBound = true
			} else {
				must(!ok, "attach-result", "file system refused the attach, session reported success")
			}
		}
	case "walk":
		nb := r.ref[o.fid2]
		switch {
		case !validNames(o.names):
			must(!ok, "walk-names", "walk with an unsafe name list succeeded")
			noCalls("unsafe name list")
		case !bound:
			must(!ok, "unbound", fmt.Sprintf("walk from unbound fid %d succeeded", o.fid))
			noCalls("walk from an unbound fid")
		case o.fid2 != o.fid && o.fid2 == NOFID:
			must(!ok, "nofid", "walk onto the reserved no-fid value succeeded")
			noCalls("walk onto NOFID")
		case o.fid2 != o.fid && nb != nil:
			must(errIs("dupfid"), "dupfid", fmt.Sprintf("walk onto bound fid %d: want duplicate-fid error, got %v", o.fid2, out.err))
			noCalls("walk onto a bound fid")
		default:
			cs := w.callsNamed("walk")
			if (b.h.dir || len(o.names) == 0) && !(len(o.names) == 0 && o.fid2 == o.fid) {
				must(len(cs) == 1, "walk-calls", fmt.Sprintf("a walk of the safe names %q from a bound directory fid onto a free fid made %d Dirent.Walk calls (result %v)", o.names, len(cs), out.err))
			}
			complete := len(cs) == 1 && cs[0].ok && len(w.handed) == 1
			if complete {
				must(ok && out.n == len(o.names), "walk-result", fmt.Sprintf("complete walk of %d names: session returned %d qids, err %v", len(o.names), out.n, out.err))
				nh := w.handed[0]
				nh.everBound = true
				// newfid (or fid itself) now names the walked-to entry, not open
				r.ref[o.fid2] = &rbind{h: nh}
			} else if ok {
				must(out.n < len(o.names) || len(o.names) == 0, "walk-result", fmt.Sprintf("incomplete walk returned %d qids for %d names", out.n, len(o.names)))
			}
			// partial / failed walk binds nothing: the reference stays as it is
		}
	case "open":
		switch {
		case !bound:
			must(!ok, "unbound", fmt.Sprintf("open of unbound fid %d succeeded", o.fid))
			noCalls("open of an unbound fid")
		case b.open:
			must(!ok, "open-twice", fmt.Sprintf("fid %d opened a second time", o.fid))
			noCalls("second open")
		default:
			cs := append(w.callsNamed("open"), w.callsNamed("opendir")...)
			must(len(cs) == 1, "open-calls", fmt.Sprintf("%d Open/OpenDir calls", len(cs)))
			if len(cs) == 1 && cs[0].ok {
				must(ok, "open-result", fmt.Sprintf("file system opened the entry, session returned %v", out.err))
				must((cs[0].name == "opendir") == b.h.dir, "open-kind", "OpenDir/Open chosen against the entry's directory bit")
				b.open, b.mode = true, o.mode
			} else {
				must(!ok, "open-result", "open failed in the file system, session reported success")
			}
		}
	case "create":
		switch {
		case !bound:
			must(!ok, "unbound", fmt.Sprintf("create in unbound fid %d succeeded", o.fid))
			noCalls("create in an unbound fid")
		default:
			cs := w.callsNamed("create")
			if len(cs) == 1 && cs[0].ok && len(w.handed) == 1 {
				nh := w.handed[0]
				od := w.callsNamed("opendir")
				if nh.dir && (len(od) != 1 || !od[0].ok) {
					// created, but the directory could not be opened: the parent's
					// handle is consumed, so the fid cannot stay bound to it
					must(!ok, "create-result", "create reported success although OpenDir of the new directory failed")
					delete(r.ref, o.fid)
				} else {
					must(ok, "create-result", fmt.Sprintf("file system created the entry, session returned %v", out.err))
					nh.everBound = true
					r.ref[o.fid] = &rbind{h: nh, open: true, mode: o.mode}
				}
			} else {
				must(!ok, "create-result", "create failed in the file system, session reported success")
			}
		}
	case "read", "write":
		permitted := bound && b.open && ((k == "read" && b.mode&3 != 1) || (k == "write" && (b.mode&3 == 1 || b.mode&3 == 2)))
		if ok {
			must(permitted, "io-not-permitted", fmt.Sprintf("%s on fid %d succeeded although it is %s", k, o.fid, describe(b)))
		}
		if !permitted {
			noCalls(k + " not permitted")
		}
		if permitted && len(w.calls) > 0 {
			allOK := true
			for _, c := range w.calls {
				allOK = allOK && c.ok
			}
			must(allOK == ok, "io-result", fmt.Sprintf("file outcome ok=%v, session ok=%v", allOK, ok))
		}
	case "stat", "wstat":
		if !bound {
			must(!ok, "unbound", fmt.Sprintf("%s of unbound fid %d succeeded", k, o.fid))
			noCalls(k + " of an unbound fid")
		} else {
			must(len(w.calls) == 1 && w.calls[0].name == k, "stat-calls", "expected exactly one "+k+" call")
			if len(w.calls) == 1 {
				must(w.calls[0].ok == ok, "stat-result", fmt.Sprintf("file system ok=%v, session ok=%v", w.calls[0].ok, ok))
			}
		}
	case "clunk", "remove":
		if !bound {
			must(!ok, "unbound", fmt.Sprintf("%s of unbound fid %d succeeded", k, o.fid))
			noCalls(k + " of an unbound fid")
		} else {
			must(len(w.calls) == 1 && w.calls[0].name == k && w.calls[0].h == b.h, "clunk-calls", fmt.Sprintf("expected exactly one %s call on entry %d", k, b.h.id))
			if len(w.calls) == 1 {
				must(w.calls[0].ok == ok, "clunk-result", fmt.Sprintf("file system ok=%v, session ok=%v", w.calls[0].ok, ok))
			}
			delete(r.ref, o.fid) // always unbound, whatever the file system answered
		}
	}
	// the real table must be the reference table
	seen := map[uint32]bool{}
	for _, e := range table {
		f := uint32(e.Fid)
		seen[f] = true
		rb := r.ref[f]
		switch {
		case e.Locked:
			// reported by the caller (both properties)
		case !e.Bound:
			must(false, "table.placeholder", fmt.Sprintf("fid %d is left reserved but unbound after the operation", f))
		case rb == nil:
			must(false, "table.extra", fmt.Sprintf("fid %d is bound in the session but not in the reference table", f))
		default:
			must(e.Open == rb.open, "table.open", fmt.Sprintf("fid %d: session open=%v, reference open=%v", f, e.Open, rb.open))
			if e.Open && rb.open {
				must(uint8(e.Mode) == rb.mode, "table.mode", fmt.Sprintf("fid %d: session mode=%d, reference mode=%d", f, e.Mode, rb.mode))
			}
		}
	}
	for f := range r.ref {
		if !seen[f] {
			must(false, "table.missing", fmt.Sprintf("fid %d is bound in the reference table but not in the session", f))
		}
	}
}

func describe(b *rbind) string {
	switch {
	case b == nil:
		return "unbound"
	case !b.open:
		return "not open"
	}
	return fmt.Sprintf("open with mode %d", b.mode)
}

// ---------------------------------------------------------------- running one sequence

func rowsSx(table []p9p.VerifFid) sx.S {
	rows := make([]sx.S, len(table))
	for i, e := range table {
		if e.Locked {
			rows[i] = sx.L(sx.U(uint64(e.Fid)), sx.Bool(false), sx.Bool(false), sx.I(0), sx.Bool(true))
		} else {
			rows[i] = sx.L(sx.U(uint64(e.Fid)), sx.Bool(e.Bound), sx.Bool(e.Open), sx.I(int64(e.Mode)), sx.Bool(false))
		}
	}
	return sx.List(rows)
}

func callsSx(calls []callRec, sorted bool) sx.S {
	calls = append([]callRec{}, calls...)
	if sorted {
		key := func(c callRec) int {
			if c.name == "attach" {
				return 0
			}
			return c.id + 1
		}
		sort.SliceStable(calls, func(i, j int) bool { return key(calls[i]) < key(calls[j]) })
	}
	cl := make([]sx.S, len(calls))
	for i, c := range calls {
		switch c.name {
		case "attach":
			cl[i] = sx.L(sx.Sym("attach"))
		case "walk", "open":
			cl[i] = sx.L(sx.Sym(c.name), sx.I(int64(c.id)), sx.I(int64(c.arg)))
		default:
			cl[i] = sx.L(sx.Sym(c.name), sx.I(int64(c.id)))
		}
	}
	return sx.List(cl)
}

func (r *seqRun) table() []p9p.VerifFid {
	table, _ := p9p.VerifFidTable(r.sess)
	sort.Slice(table, func(i, j int) bool { return table[i].Fid < table[j].Fid })
	return table
}

func resSx(o *opT, out outcome, hung bool) sx.S {
	switch {
	case hung:
		o.result = "hang"
		return sx.Sym("hang")
	case out.panicked != "":
		o.result = "panic"
		return sx.Sym("panic")
	case out.err != nil:
		o.result = "err:" + classify(out.err)
		return sx.L(sx.Sym("err"), sx.Sym(classify(out.err)))
	}
	o.result = "ok"
	return sx.L(sx.Sym("ok"), sx.I(int64(out.n)))
}

// launch starts operation o in its own goroutine (a hang or a panic is an observation).
func (r *seqRun) launch(o *opT, gated bool) chan outcome {
	w := r.w
	w.mu.Lock()
	w.toks, w.cur, w.calls, w.handed, w.events = append(o.toks[:], o.extra...), 0, nil, nil, nil
	w.gateArmed, w.gateHit = gated, false
	if gated {
		w.entered, w.gateOpen = make(chan struct{}, 1), make(chan struct{})
	}
	w.mu.Unlock()
	r.ops = append(r.ops, o)
	done := make(chan outcome, 1)
	go func() {
		defer func() {
			if e := recover(); e != nil {
				done <- outcome{panicked: fmt.Sprint(e)}
			}
		}()
		done <- invoke(context.Background(), r.sess, o)
	}()
	return done
}

func (r *seqRun) step(o *opT) {
	done := r.launch(o, false)
	var out outcome
	select {
	case out = <-done:
	case <-time.After(hangWait()):
		r.hung = true
		atomic.AddInt64(&hangsSeen, 1)
	}
	r.record(o, out)
}

// record: observation and direct oracles for an operation that has returned (or hung).
func (r *seqRun) record(o *opT, out outcome) {
	w := r.w
	w.mu.Lock()
	defer w.mu.Unlock()
	table := r.table()
	res := resSx(o, out, r.hung)
	r.obs = append(r.obs, sx.L(res, rowsSx(table), callsSx(w.calls, o.kind == "stop")))
	r.branches = append(r.branches, o.kind+":"+o.result)

	// ---- direct oracles
	if r.hung {
		r.fail("C08,C13", "session.hang:"+o.kind, fmt.Sprintf("%s did not return within %d ms although every file-system call returned at once", o.String(), *hangMs))
		return
	}
	if out.panicked != "" {
		r.fail("C08,C13", "session.panic:"+o.kind, fmt.Sprintf("%s panicked: %s", o.String(), out.panicked))
		r.hung = true // the sequence ends here
		return
	}
	for _, e := range table {
		if e.Locked && !r.lockedSeen[uint32(e.Fid)] {
			r.lockedSeen[uint32(e.Fid)] = true
			r.fail("C08,C13", "session.fid-left-locked:"+o.kind, fmt.Sprintf("after %s returned (%s), fid %d is still locked", o.String(), o.result, e.Fid))
		}
	}
	for _, ev := range w.events {
		i := strings.Index(ev, "|")
		r.fail("C13", ev[:i], o.String()+": "+ev[i+1:])
	}
	if o.kind == "stop" {
		// Stop empties the table; the reference starts afresh and stays in force
		for _, e := range table {
			if e.Bound {
				r.fail("C13", "session.stop.still-bound", fmt.Sprintf("fid %d is still bound after Stop", e.Fid))
			} else if !e.Locked {
				r.fail("C08", "session.stop.fid-left-reserved", fmt.Sprintf("fid %d is still in the table after Stop: it cannot be used again", e.Fid))
			}
		}
		for f := range r.ref {
			delete(r.ref, f)
		}
	} else if !r.stopped && !r.diverged {
		r.oracle(o, out, table)
	}
	// an entry must not be released while it stays bound
	if !r.stopped && !r.diverged {
		for f, b := range r.ref {
			if b.h.released > 0 {
				r.fail("C13", "session.release.while-bound:"+o.kind, fmt.Sprintf("after %s, fid %d is still bound to entry %d, which has been released (%s)", o.String(), f, b.h.id, strings.Join(b.h.causes, ",")))
			}
		}
	}
}

// finish: after the final Stop every entry that was ever bound must have been released exactly once.
func (r *seqRun) finish() {
	if r.hung {
		return
	}
	w := r.w
	w.mu.Lock()
	defer w.mu.Unlock()
	for _, h := range w.all {
		// (sound even after the reference table diverged: everBound was set while it still agreed)
		if h.everBound && h.released == 0 {
			r.fail("C13", "session.release.leak", fmt.Sprintf("entry %d was bound to a fid and is never released, even by Stop", h.id))
		}
	}
}

// ---------------------------------------------------------------- generation

var nameGood = []string{"a", "b", "c", "..", "xy", "..b", "...", "....", ".a", "a..", "x..y", "a.", ".b."}
var nameBad = []string{"", ".", "a/b", "a\\b", "/", "../x", "..\\x", "/a", "a/", "\\a", "a\\", "./a", "../..", "\\"}

// genMode: open/create modes over the whole byte, dense at the boundaries: every access kind
// (low two bits) alone, with each single higher bit, with all higher bits; or any byte.
func genMode(g *prng.R) uint8 {
	low := uint8(g.Intn(4))
	switch x := g.Intn(100); {
	case x < 20:
		return low
	case x < 60:
		return low | uint8(1)<<uint(g.Range(2, 7))
	case x < 70:
		return low | 0xFC
	}
	return uint8(g.Intn(256))
}

func genTok(g *prng.R, kind string, nnames int) tok {
	t := tok{}
	switch x := g.Intn(100); {
	case x < 80:
	case x < 91:
		t.fail = 1
	case x < 96:
		t.fail = 2
	case x < 98:
		t.fail = 3
	default:
		t.fail = 4
	}
	switch kind {
	case "attach":
		t.dir = g.Chance(85, 100)
	case "create":
		t.dir = g.Chance(45, 100)
	default:
		t.dir = g.Chance(60, 100)
	}
	if g.Chance(72, 100) {
		t.nq = nnames
	} else {
		t.nq = g.Intn(nnames + 2)
	}
	return t
}

func (r *seqRun) pickFid(g *prng.R, wantBound bool, p int) uint32 {
	if g.Chance(p, 100) {
		var c []uint32
		for _, f := range fidPool {
			_, b := r.ref[f]
			if b == wantBound && f != NOFID {
				c = append(c, f)
			}
		}
		if len(c) > 0 {
			return c[g.Intn(len(c))]
		}
	}
	return fidPool[g.Intn(len(fidPool))]
}

// pickOpen prefers a fid that the reference table holds open (or bound but not open).
func (r *seqRun) pickOpen(g *prng.R, open bool, p int) uint32 {
	if g.Chance(p, 100) {
		var c []uint32
		for _, f := range fidPool {
			if b, ok := r.ref[f]; ok && b.open == open {
				c = append(c, f)
			}
		}
		if len(c) > 0 {
			return c[g.Intn(len(c))]
		}
	}
	return r.pickFid(g, true, 85)
}

func (r *seqRun) genOp(g *prng.R) *opT {
	o := &opT{}
	x := g.Intn(100)
	if len(r.ref) == 0 && !r.stopped && g.Chance(75, 100) {
		x = 0 // nothing is bound: attach first
	}
	switch {
	case x < 12:
		o.kind = "attach"
		o.fid = r.pickFid(g, false, 70)
		o.fid2 = NOFID
		if g.Chance(18, 100) {
			o.fid2 = r.pickFid(g, true, 70)
		}
	case x < 36:
		o.kind = "walk"
		o.fid = r.pickFid(g, true, 88)
		switch y := g.Intn(100); {
		case y < 60:
			o.fid2 = r.pickFid(g, false, 90)
		case y < 80:
			o.fid2 = o.fid
		default:
			o.fid2 = fidPool[g.Intn(len(fidPool))]
		}
		n := 0
		switch y := g.Intn(100); {
		case y < 30:
		case y < 65:
			n = 1
		default:
			n = g.Range(2, 4)
		}
		for i := 0; i < n; i++ {
			if g.Chance(92, 100) {
				nm := nameGood[g.Intn(len(nameGood))]
				if nm == ".." && i > 0 && g.Chance(80, 100) {
					nm = "a"
				}
				o.names = append(o.names, nm)
			} else {
				o.names = append(o.names, nameBad[g.Intn(len(nameBad))])
			}
		}
	case x < 48:
		o.kind = "open"
		o.fid = r.pickOpen(g, false, 75)
		o.mode = genMode(g)
	case x < 58:
		o.kind = "create"
		o.fid = r.pickFid(g, true, 88)
		o.mode = genMode(g)
		o.name = "n"
		if g.Chance(6, 100) {
			o.name = []string{".", "..", ""}[g.Intn(3)]
		}
	case x < 66:
		o.kind = "read"
		o.fid = r.pickOpen(g, true, 75)
	case x < 74:
		o.kind = "write"
		o.fid = r.pickOpen(g, true, 75)
	case x < 79:
		o.kind = "stat"
		o.fid = r.pickFid(g, true, 85)
	case x < 82:
		o.kind = "wstat"
		o.fid = r.pickFid(g, true, 85)
	case x < 91:
		o.kind = "clunk"
		o.fid = r.pickFid(g, true, 85)
	case x < 97:
		o.kind = "remove"
		o.fid = r.pickFid(g, true, 85)
	case x < 99:
		o.kind = "auth"
		o.fid = fidPool[g.Intn(len(fidPool))]
	default:
		o.kind = "stop"
	}
	for i := range o.toks {
		o.toks[i] = genTok(g, o.kind, len(o.names))
	}
	o.buf = 2
	if g.Chance(40, 100) {
		o.buf = g.Intn(2)
	}
	if g.Chance(30, 100) {
		o.ctxk = 1 + g.Intn(2)
	}
	return o
}

func runSeq(g *prng.R) *seqRun {
	w := &world{}
	r := &seqRun{w: w, sess: p9p.SFileSys(w), ref: map[uint32]*rbind{}, lockedSeen: map[uint32]bool{}}
	n := g.Range(1, 40)
	for i := 0; i < n && !r.hung; i++ {
		r.step(r.genOp(g))
	}
	if !r.hung {
		o := &opT{kind: "stop"}
		for i := range o.toks {
			o.toks[i] = genTok(g, "stop", 0)
		}
		r.step(o)
		r.finish()
	}
	return r
}

// ---------------------------------------------------------------- pinned sequences

func tk(fail int, dir bool, nq int) tok { return tok{fail: fail, dir: dir, nq: nq} }

func mk(kind string, fid, fid2 uint32, names []string, name string, mode uint8, ts ...tok) *opT {
	o := &opT{kind: kind, fid: fid, fid2: fid2, names: names, name: name, mode: mode, buf: 2}
	copy(o.toks[:], ts)
	return o
}

// corpus: the witnesses of the repaired defects and a few hand-written
// sequences; they run before the random ones in every run, whatever the seed.
func corpus() [][]*opT {
	d := tk(0, true, 9)
	f := tk(0, false, 9)
	e := tk(1, false, 0)
	n := tk(2, false, 0)
	return [][]*opT{
		// D8: attach with an afid that is bound but not open must not leave it locked
		{mk("attach", 1, NOFID, nil, "", 0, d), mk("attach", 2, 1, nil, "", 0, d), mk("read", 1, 0, nil, "", 0), mk("stat", 1, 0, nil, "", 0)},
		// ... nor when it is open (File is not an AuthFile)
		{mk("attach", 1, NOFID, nil, "", 0, d), mk("open", 1, 0, nil, "", 0), mk("attach", 2, 1, nil, "", 0, d), mk("read", 1, 0, nil, "", 0)},
		// D9: create of a directory whose OpenDir fails returns, unbinds the fid, clunks the new entry
		{mk("attach", 0, NOFID, nil, "", 0, d), mk("create", 0, 0, nil, "n", 0, d, e, f), mk("stat", 0, 0, nil, "", 0), mk("attach", 0, NOFID, nil, "", 0, d)},
		{mk("attach", 0, NOFID, nil, "", 0, d), mk("create", 0, 0, nil, "n", 2, d, n, e), mk("clunk", 0, 0, nil, "", 0)},
		// in-place walk of an open directory fid: the fid is not open afterwards
		{mk("attach", 1, NOFID, nil, "", 0, d), mk("open", 1, 0, nil, "", 0), mk("read", 1, 0, nil, "", 0), mk("walk", 1, 1, []string{"a"}, "", 0, d, e), mk("read", 1, 0, nil, "", 0), mk("open", 1, 0, nil, "", 1), mk("write", 1, 0, nil, "", 0)},
		// nil ReadNext with nil error from OpenDir
		{mk("attach", 2, NOFID, nil, "", 0, d), mk("open", 2, 0, nil, "", 0, n), mk("read", 2, 0, nil, "", 0), mk("open", 2, 0, nil, "", 0), mk("read", 2, 0, nil, "", 0, e), mk("read", 2, 0, nil, "", 0), mk("read", 2, 0, nil, "", 0)},
		// clone, partial walk, failed walk, walk onto bound fid, onto NOFID, in-place no-op, clunk with error, reuse
		{mk("attach", 0, NOFID, nil, "", 0, d), mk("walk", 0, 1, nil, "", 0, d), mk("walk", 0, 2, []string{"a", "b"}, "", 0, tk(0, false, 1)),
			mk("walk", 0, 2, []string{"a", "b"}, "", 0, e), mk("walk", 0, 2, []string{"a", "b"}, "", 0, n), mk("walk", 0, 1, []string{"a"}, "", 0, f),
			mk("walk", 0, NOFID, []string{"a"}, "", 0, f), mk("walk", 0, 0, nil, "", 0, f), mk("walk", 0, 2, []string{"a", "b"}, "", 0, f),
			mk("walk", 2, 3, []string{"c"}, "", 0, f), mk("walk", 0, 3, []string{"a", ".."}, "", 0, f), mk("walk", 0, 3, []string{"..", "a"}, "", 0, tk(0, false, 0)),
			mk("clunk", 1, 0, nil, "", 0, e), mk("walk", 0, 1, nil, "", 0, d), mk("remove", 1, 0, nil, "", 0, e), mk("attach", 1, NOFID, nil, "", 0, e), mk("attach", 1, NOFID, nil, "", 0, f)},
		// nil results with a nil error, for every call that returns an entry or a file
		{mk("attach", 0, NOFID, nil, "", 0, tk(2, true, 0)), mk("stat", 0, 0, nil, "", 0), mk("attach", 0, NOFID, nil, "", 0, d),
			mk("walk", 0, 1, []string{"a"}, "", 0, tk(2, false, 1)), mk("walk", 0, 1, nil, "", 0, tk(2, true, 0)), mk("walk", 0, 1, nil, "", 0, d), mk("walk", 0, 2, nil, "", 0, d),
			mk("create", 1, 0, nil, "n", 0, tk(2, false, 0)), mk("create", 1, 0, nil, "n", 0, tk(4, false, 0)), mk("create", 1, 0, nil, "n", 0, tk(4, true, 0)), mk("create", 1, 0, nil, "n", 0, tk(3, false, 0)),
			mk("stat", 1, 0, nil, "", 0), mk("create", 1, 0, nil, "n", 0, d, n), mk("stat", 1, 0, nil, "", 0),
			mk("walk", 0, 3, []string{"f"}, "", 0, f), mk("open", 3, 0, nil, "", 0, n), mk("open", 3, 0, nil, "", 0), mk("open", 2, 0, nil, "", 0, n), mk("open", 2, 0, nil, "", 0)},
		// create: file, nil entry, nil File, in a non-directory, illegal name; read/write gates on every mode
		{mk("attach", 0, NOFID, nil, "", 0, d), mk("walk", 0, 1, nil, "", 0, d), mk("walk", 0, 2, nil, "", 0, d), mk("walk", 0, 3, nil, "", 0, d),
			mk("create", 0, 0, nil, "n", 1, f), mk("write", 0, 0, nil, "", 0), mk("read", 0, 0, nil, "", 0), mk("create", 0, 0, nil, "m", 0, f),
			mk("create", 1, 0, nil, "n", 2, n), mk("create", 1, 0, nil, "n", 2, tk(3, false, 0)), mk("create", 1, 0, nil, "..", 2, f), mk("create", 1, 0, nil, "n", 0x12, f),
			mk("read", 1, 0, nil, "", 0), mk("write", 1, 0, nil, "", 0, e), mk("open", 2, 0, nil, "", 3), mk("read", 2, 0, nil, "", 0), mk("write", 2, 0, nil, "", 0),
			mk("open", 3, 0, nil, "", 0x41), mk("write", 3, 0, nil, "", 0), mk("read", 3, 0, nil, "", 0), mk("stop", 0, 0, nil, "", 0), mk("attach", 3, NOFID, nil, "", 0, d), mk("stat", 3, 0, nil, "", 0)},
	}
}

// grids: every special-form name (alone, after an ordinary name, after and before "..") in a
// walk that the file system would complete, and every one of the 256 open modes on a created
// file, an opened file and an opened directory, each followed by a read and a write.
func grids() [][]*opT {
	d, f := tk(0, true, 9), tk(0, false, 9)
	var out [][]*opT
	var lists [][]string
	all := append(append([]string{}, nameGood...), nameBad...)
	for _, x := range all {
		lists = append(lists, []string{x}, []string{"a", x}, []string{"..", x}, []string{x, ".."}, []string{x, "b"})
	}
	for i := 0; i < len(lists); i += 18 {
		seq := []*opT{mk("attach", 0, NOFID, nil, "", 0, d)}
		j := i + 18
		if j > len(lists) {
			j = len(lists)
		}
		for _, l := range lists[i:j] {
			seq = append(seq, mk("walk", 0, 1, l, "", 0, f), mk("clunk", 1, 0, nil, "", 0))
		}
		out = append(out, seq)
	}
	for base := 0; base < 256; base++ {
		seq := []*opT{mk("attach", 0, NOFID, nil, "", 0, d)}
		for m := base; m < base+1; m++ {
			mode := uint8(m)
			seq = append(seq,
				mk("walk", 0, 1, nil, "", 0, d), mkb("write", 1, m%2), mkb("read", 1, (m+1)%2), mk("create", 1, 0, nil, "n", mode, f), mk("read", 1, 0, nil, "", 0), mk("write", 1, 0, nil, "", 0),
				mkb("read", 1, m%2), mkb("write", 1, (m+1)%2), mk("clunk", 1, 0, nil, "", 0), mkb("write", 1, m%2),
				mk("walk", 0, 2, []string{"a"}, "", 0, f), mk("open", 2, 0, nil, "", mode), mk("read", 2, 0, nil, "", 0), mk("write", 2, 0, nil, "", 0), mk("clunk", 2, 0, nil, "", 0),
				mk("walk", 0, 3, nil, "", 0, d), mk("open", 3, 0, nil, "", mode), mkb("read", 3, m%2), mkb("write", 3, m%2), mk("read", 3, 0, nil, "", 0), mk("write", 3, 0, nil, "", 0),
				mkc("clunk", 3, 1+m%2, tk(1, false, 0)), mkc("clunk", 3, 1+m%2, tk(1, false, 0)))
		}
		out = append(out, seq)
	}
	return out
}

// mkb: read/write with an empty buffer (0 nil, 1 empty non-nil); mkc: an operation under a
// request context that is already done (1 cancelled, 2 expired), with the given tokens
func mkb(kind string, fid uint32, buf int) *opT {
	o := mk(kind, fid, 0, nil, "", 0)
	o.buf = buf
	return o
}
func mkc(kind string, fid uint32, ctxk int, ts ...tok) *opT {
	o := mk(kind, fid, 0, nil, "", 0, ts...)
	o.ctxk = ctxk
	return o
}

func runFixed(ops []*opT) *seqRun {
	w := &world{}
	r := &seqRun{w: w, sess: p9p.SFileSys(w), ref: map[uint32]*rbind{}, lockedSeen: map[uint32]bool{}}
	for _, o := range ops {
		if r.hung {
			break
		}
		r.step(o)
	}
	if !r.hung {
		r.step(&opT{kind: "stop"})
		r.finish()
	}
	return r
}

// ---------------------------------------------------------------- Stop while an operation is in flight

var coreKinds = []string{"stat", "wstat", "read", "write"}
var extKinds = []string{"open", "walk", "create", "attach", "clunk", "remove"}

// runInflight: some set-up operations, then one operation is started and held
// inside its first file-system call (so it holds its fid's lock, or its
// reservation) while Stop is called; then the gate opens.  Stop has to wait
// for the operation; once both have returned, every entry that was ever bound
// must have been released exactly once and nothing may be bound (C13, "stop
// at any point").  The model predicts the same as for "operation, then Stop".
func runInflight(g *prng.R) *seqRun {
	w := &world{}
	r := &seqRun{w: w, sess: p9p.SFileSys(w), ref: map[uint32]*rbind{}, lockedSeen: map[uint32]bool{}}
	n := g.Range(2, 14)
	for i := 0; i < n && !r.hung; i++ {
		o := r.genOp(g)
		if o.kind == "stop" {
			continue
		}
		r.step(o)
	}
	if r.hung {
		return r
	}
	want := coreKinds[g.Intn(len(coreKinds))]
	if g.Chance(35, 100) {
		want = extKinds[g.Intn(len(extKinds))]
	}
	var o *opT
	for i := 0; i < 3000; i++ {
		o = r.genOp(g)
		if o.kind == want && r.reaches(o) {
			break
		}
	}
	if o.kind != want {
		o = &opT{kind: "stat", fid: r.pickFid(g, true, 100)}
	}
	hang := hangWait()
	done := r.launch(o, true)
	var out outcome
	select {
	case <-w.entered:
	case out = <-done:
		// returned without calling the file system: an ordinary sequence
		w.mu.Lock()
		w.gateArmed = false
		w.mu.Unlock()
		r.record(o, out)
		if !r.hung {
			r.step(&opT{kind: "stop"})
			r.finish()
		}
		return r
	case <-time.After(hang):
		r.hung = true
		r.record(o, out)
		return r
	}
	// o is inside its file-system call and holds its fid's lock
	r.inflight = o.kind
	bad := func(what, text string) {
		r.fail("C13", "session.stop.inflight:"+what+":"+o.kind, fmt.Sprintf("Stop while %s is inside its first file-system call: %s", o.String(), text))
	}
	stopDone := make(chan struct{})
	w.mu.Lock()
	w.stopActive = true
	w.mu.Unlock()
	go func() {
		defer close(stopDone)
		r.sess.Stop(nil)
	}()
	// Stop must wait for the operation, unless the operation has already taken its SFid out
	// of the table (clunk, remove).  "Still blocked" is observed with a short time-out,
	// "returns" with the generous one: a slow machine can hide a violation, never invent one.
	expectBlocked := o.kind != "clunk" && o.kind != "remove"
	wait := hang
	if expectBlocked {
		wait = 80 * time.Millisecond
	}
	stopObs := "blocked"
	select {
	case <-stopDone:
		stopObs = "returned"
	case <-time.After(wait):
	}
	close(w.gateOpen)
	select {
	case out = <-done:
	case <-time.After(hang):
		r.hung = true
		bad("hang", "the operation did not return after the gate was opened")
	}
	if !r.hung && stopObs == "blocked" {
		select {
		case <-stopDone:
		case <-time.After(hang):
			r.hung = true
			bad("hang", "Stop did not return after the operation had returned")
		}
	}
	w.mu.Lock()
	defer w.mu.Unlock()
	table := r.table()
	res := resSx(o, out, r.hung)
	r.branches = append(r.branches, "inflight-"+o.kind+":"+o.result+":stop-"+stopObs)
	r.stopped = true
	// the calls of the operation and of Stop together, by entry (Stop's order is the map's)
	r.obs = append(r.obs, sx.L(sx.Sym("stop"), sx.Sym(stopObs)), sx.L(res, rowsSx(table), callsSx(w.calls, true)))
	if stopObs == "returned" && expectBlocked {
		bad("not-waited", "Stop returned while the operation was still inside the file system holding its fid's lock")
	}
	if r.hung {
		return r
	}
	if out.panicked != "" {
		bad("panic", "the operation panicked: "+out.panicked)
		return r
	}
	for _, e := range table {
		if e.Bound {
			bad("still-bound", fmt.Sprintf("fid %d is still bound after Stop and the operation have returned", e.Fid))
		}
		if e.Locked {
			bad("left-locked", fmt.Sprintf("fid %d is still locked after Stop and the operation have returned", e.Fid))
		}
	}
	for _, ev := range w.events {
		i := strings.Index(ev, "|")
		k := ev[:i]
		switch {
		case strings.HasPrefix(k, "session.release.double"):
			bad("double-release", ev[i+1:])
		case strings.HasPrefix(k, "session.use-after-release"):
			bad("use-after-release", ev[i+1:])
		default:
			bad("other", ev[i+1:])
		}
	}
	for _, h := range w.all {
		if h.everBound && h.released == 0 {
			bad("leak", fmt.Sprintf("entry %d was bound to a fid and is never released", h.id))
		}
	}
	return r
}

// ---------------------------------------------------------------- two operations at once

// launchRaw starts o beside an operation already running: the world's call log and token
// cursor go on (the k-th file-system call of the pair takes the k-th token).
func (r *seqRun) launchRaw(o *opT) chan outcome {
	r.ops = append(r.ops, o)
	done := make(chan outcome, 1)
	go func() {
		defer func() {
			if e := recover(); e != nil {
				done <- outcome{panicked: fmt.Sprint(e)}
			}
		}()
		done <- invoke(context.Background(), r.sess, o)
	}()
	return done
}

// pickOp draws operations until one of the wanted kinds that reaches the file system comes up.
func (r *seqRun) pickOp(g *prng.R, kinds []string, ok func(*opT) bool) *opT {
	for i := 0; i < 4000; i++ {
		o := r.genOp(g)
		for _, k := range kinds {
			if o.kind == k && ok(o) {
				return o
			}
		}
	}
	return nil
}

func (r *seqRun) reaches(o *opT) bool {
	b := r.ref[o.fid]
	switch o.kind {
	case "attach":
		return o.fid2 == NOFID && o.fid != NOFID && b == nil
	case "stat", "wstat", "clunk", "remove":
		return b != nil
	case "open":
		return b != nil && !b.open
	case "read":
		return b != nil && b.open && b.mode&3 != 1
	case "write":
		return b != nil && b.open && !b.h.dir && (b.mode&3 == 1 || b.mode&3 == 2)
	case "create":
		return b != nil && b.h.dir && o.name == "n"
	case "walk":
		return b != nil && validNames(o.names) && (len(o.names) == 0 || b.h.dir) && !(len(o.names) == 0 && o.fid2 == o.fid) &&
			(o.fid2 == o.fid || (o.fid2 != NOFID && r.ref[o.fid2] == nil))
	}
	return false
}

// pairOracle: the release accounting once everything has returned (and Stop has run).
func (r *seqRun) pairOracle(pfx, tag string, o1 *opT, out1, out2 outcome, wantEmpty bool) {
	w := r.w
	bad := func(what, text string) {
		r.fail("C13", pfx+what+":"+tag, fmt.Sprintf("%s beside %s: %s", r.ops[len(r.ops)-1].String(), o1.String(), text))
	}
	if out1.panicked != "" {
		bad("panic", "the first operation panicked: "+out1.panicked)
	}
	if out2.panicked != "" {
		bad("panic", "the second operation panicked: "+out2.panicked)
	}
	for _, e := range r.table() {
		if e.Locked {
			bad("left-locked", fmt.Sprintf("fid %d is still locked after everything has returned", e.Fid))
		} else if wantEmpty && e.Bound {
			bad("still-bound", fmt.Sprintf("fid %d is still bound after Stop and both operations have returned", e.Fid))
		} else if !e.Bound {
			bad("left-reserved", fmt.Sprintf("fid %d is left reserved but unbound", e.Fid))
		}
	}
	for _, ev := range w.events {
		i := strings.Index(ev, "|")
		switch k := ev[:i]; {
		case strings.HasPrefix(k, "session.release.double"):
			bad("double-release", ev[i+1:])
		case strings.HasPrefix(k, "session.use-after-release"):
			bad("use-after-release", ev[i+1:])
		default:
			bad("other", ev[i+1:])
		}
	}
	if wantEmpty {
		for _, h := range w.all {
			if h.everBound && h.released == 0 {
				bad("leak", fmt.Sprintf("entry %d was bound to a fid and is never released", h.id))
			}
		}
	}
}

// runStopWait: Stop is blocked on the fid reserved (or locked) by an Attach/Walk held inside
// the file system - which may then fail and roll its reservation back - while a second
// operation binds another fid; then the gate opens.  After all three have returned nothing
// may be bound and everything ever bound must have been released once.
// Model: setup; op1; op2; stop, run one after the other (the fids are disjoint).
func runStopWait(g *prng.R) *seqRun {
	w := &world{}
	r := &seqRun{w: w, sess: p9p.SFileSys(w), ref: map[uint32]*rbind{}, lockedSeen: map[uint32]bool{}}
	n := 0
	if g.Chance(55, 100) {
		n = g.Range(1, 8)
	}
	for i := 0; i < n && !r.hung; i++ {
		if o := r.genOp(g); o.kind != "stop" {
			r.step(o)
		}
	}
	if r.hung {
		return r
	}
	o1 := r.pickOp(g, []string{"attach", "walk"}, func(o *opT) bool { return r.reaches(o) && (o.kind == "attach" || o.fid2 != o.fid) })
	if o1 == nil {
		o1 = &opT{kind: "attach", fid: 3, fid2: NOFID}
		if r.ref[3] != nil {
			return r
		}
	}
	if g.Chance(65, 100) {
		o1.toks[0].fail = 1 // the reservation is rolled back
	}
	o2 := &opT{kind: "attach", fid2: NOFID}
	for _, f := range []uint32{100, 0, 1, 2, 3} {
		if r.ref[f] == nil && f != o1.fid && f != o1.fid2 {
			o2.fid = f
		}
	}
	if r.ref[o2.fid] != nil || o2.fid == o1.fid || o2.fid == o1.fid2 {
		return r
	}
	for i := range o2.toks {
		o2.toks[i] = genTok(g, "attach", 0)
	}
	o1.extra = append([]tok{}, o2.toks[:]...)
	// the k-th call of the pair takes token k: op1's held call is call 0, op2's Attach call 1
	o1.toks[1], o1.toks[2], o1.extra = o2.toks[0], o2.toks[1], []tok{o2.toks[2]}
	hang := hangWait()
	done1 := r.launch(o1, true)
	var out1, out2 outcome
	select {
	case <-w.entered:
	case out1 = <-done1:
		w.mu.Lock()
		w.gateArmed = false
		w.mu.Unlock()
		r.record(o1, out1)
		if !r.hung {
			r.step(&opT{kind: "stop"})
			r.finish()
		}
		return r
	case <-time.After(hang):
		r.hung = true
		r.record(o1, out1)
		return r
	}
	r.pair = "stopwait"
	w.mu.Lock()
	w.stopActive = true
	w.mu.Unlock()
	stopDone := make(chan struct{})
	go func() {
		defer close(stopDone)
		r.sess.Stop(nil)
	}()
	stopObs := "blocked"
	select {
	case <-stopDone:
		stopObs = "returned"
	case <-time.After(80 * time.Millisecond):
	}
	done2 := r.launchRaw(o2)
	select {
	case out2 = <-done2:
	case <-time.After(hang):
		r.hung = true
	}
	close(w.gateOpen)
	if !r.hung {
		select {
		case out1 = <-done1:
		case <-time.After(hang):
			r.hung = true
		}
	}
	if !r.hung {
		select {
		case <-stopDone:
		case <-time.After(hang):
			r.hung = true
		}
	}
	w.mu.Lock()
	defer w.mu.Unlock()
	res1, res2 := resSx(o1, out1, r.hung), resSx(o2, out2, r.hung)
	r.branches = append(r.branches, "stopwait-"+o1.kind+":"+o1.result+"/"+o2.result)
	r.obs = append(r.obs, sx.L(res1, res2, rowsSx(r.table()), callsSx(w.calls, true)))
	if r.hung {
		r.fail("C13", "session.stop.inflight2:hang:"+o1.kind, fmt.Sprintf("Stop beside %s and %s: something did not return", o1.String(), o2.String()))
		return r
	}
	if stopObs == "returned" {
		r.fail("C13", "session.stop.inflight2:not-waited:"+o1.kind, fmt.Sprintf("Stop returned while %s was still inside the file system", o1.String()))
	}
	r.pairOracle("session.stop.inflight2:", o1.kind, o1, out1, out2, true)
	return r
}

// runQueued: operation 1 is held inside its first file-system call (holding its fid's lock)
// while operation 2 on the same fid has looked the fid up and waits for that lock; then the
// gate opens.  Operation 2 must see what operation 1 left behind - in particular an unbound
// fid if operation 1 unbound it - and must not touch an entry operation 1 released.
// Model: setup; op1; op2; stop, one after the other (the lock serialises them).
func runQueued(g *prng.R) *seqRun {
	w := &world{}
	r := &seqRun{w: w, sess: p9p.SFileSys(w), ref: map[uint32]*rbind{}, lockedSeen: map[uint32]bool{}}
	n := g.Range(1, 10)
	for i := 0; i < n && !r.hung; i++ {
		if o := r.genOp(g); o.kind != "stop" {
			r.step(o)
		}
	}
	if r.hung {
		return r
	}
	kinds1 := []string{"create", "create", "walk", "open", "stat", "read", "clunk", "remove", "attach", "write", "wstat"}
	want := kinds1[g.Intn(len(kinds1))]
	o1 := r.pickOp(g, []string{want}, r.reaches)
	if o1 == nil {
		return r
	}
	if o1.kind == "create" && g.Chance(70, 100) {
		// the new directory cannot be opened: Create rolls back and unbinds the fid
		o1.toks[0] = tok{fail: 0, dir: true}
		o1.toks[1].fail = 1 + g.Intn(2)
	}
	kinds2 := []string{"stat", "wstat", "read", "write", "open", "clunk", "remove", "walk", "create"}
	o2 := r.pickOp(g, []string{kinds2[g.Intn(len(kinds2))]}, func(*opT) bool { return true })
	if o2 == nil {
		return r
	}
	o2.fid = o1.fid
	o1.extra = append([]tok{}, o2.toks[:]...)
	hang := hangWait()
	done1 := r.launch(o1, true)
	var out1, out2 outcome
	select {
	case <-w.entered:
	case out1 = <-done1:
		w.mu.Lock()
		w.gateArmed = false
		w.mu.Unlock()
		r.record(o1, out1)
		if !r.hung {
			r.step(&opT{kind: "stop"})
			r.finish()
		}
		return r
	case <-time.After(hang):
		r.hung = true
		r.record(o1, out1)
		return r
	}
	r.pair = "queued"
	done2 := r.launchRaw(o2)
	time.Sleep(40 * time.Millisecond) // let it reach the lock; if it has not, it simply runs afterwards
	close(w.gateOpen)
	select {
	case out1 = <-done1:
	case <-time.After(hang):
		r.hung = true
	}
	if !r.hung {
		select {
		case out2 = <-done2:
		case <-time.After(hang):
			r.hung = true
		}
	}
	tag := o1.kind + "+" + o2.kind
	w.mu.Lock()
	res1, res2 := resSx(o1, out1, r.hung), resSx(o2, out2, r.hung)
	r.branches = append(r.branches, "queued-"+o1.kind+":"+o1.result+"/"+o2.kind+":"+o2.result)
	r.obs = append(r.obs, sx.L(res1, res2, rowsSx(r.table()), callsSx(w.calls, false)))
	if r.hung {
		r.fail("C13", "session.queued:hang:"+tag, fmt.Sprintf("%s queued behind %s: something did not return", o2.String(), o1.String()))
		w.mu.Unlock()
		return r
	}
	r.pairOracle("session.queued:", tag, o1, out1, out2, false)
	w.mu.Unlock()
	if out1.panicked != "" || out2.panicked != "" {
		r.hung = true
		return r
	}
	r.step(&opT{kind: "stop"})
	r.finish()
	return r
}

func (r *seqRun) caseSexp(upto int) sx.S {
	if r.pair != "" {
		// (stopwait|queued (setup ...) op1 op2 [stop]): op1 and op2 ran at the same time
		k := len(r.ops) - 2
		if r.pair == "queued" && r.ops[len(r.ops)-1].kind == "stop" {
			k = len(r.ops) - 3
		}
		if upto >= k+1 {
			var setup []sx.S
			for _, o := range r.ops[:k] {
				setup = append(setup, o.sexp())
			}
			return sx.L(sx.Sym(r.pair), sx.List(setup), r.ops[k].sexp(), r.ops[k+1].sexp())
		}
	}
	if r.inflight != "" && upto >= len(r.ops)-1 {
		// (inflight (setup ...) op): the last operation is held in its first
		// file-system call while Stop runs
		var setup []sx.S
		for _, o := range r.ops[:len(r.ops)-1] {
			setup = append(setup, o.sexp())
		}
		return sx.L(sx.Sym("inflight"), sx.List(setup), r.ops[len(r.ops)-1].sexp())
	}
	l := []sx.S{sx.Sym("seq")}
	for i, o := range r.ops {
		if i > upto {
			break
		}
		l = append(l, o.sexp())
	}
	return sx.List(l)
}

func wants(props string) bool {
	return *propFlag == "all" || strings.Contains(props, *propFlag)
}

func main() {
	r := rep.Open()
	defer r.Close()
	r.Rule = "random operation sequences (1..40 operations + a final stop) over fids {0,1,2,3,100,NOFID}: attach/walk/open/create/read/write/stat/wstat/clunk/remove/auth/stop, fids biased towards the state in which the operation is meaningful, name lists of 0..4 elements (5% unsafe), every file-system call outcome drawn from per-operation tokens (20% failures: error, nil result, nil File). A sequence is non-trivial when at least three operations succeeded; distinct by canonical case text."
	rng := prng.New(r.Seed)
	nseq := r.N(1000, 30000)
	gens := make([]*prng.R, nseq+r.N(300, 4000)+2*r.N(250, 3000))
	for i := range gens {
		gens[i] = rng.Fork()
	}
	fixed := append(corpus(), grids()...)
	pinned := make([]*seqRun, len(fixed))
	ninfl := r.N(300, 4000)
	npair := r.N(250, 3000) // each of the two pair families
	results := make([]*seqRun, nseq+ninfl+2*npair)
	var wg sync.WaitGroup
	next := make(chan int, len(fixed)+nseq+ninfl+2*npair)
	for i := -len(fixed); i < nseq+ninfl+2*npair; i++ { // negative: the pinned sequences, first
		next <- i
	}
	close(next)
	for wk := 0; wk < *workers; wk++ {
		wg.Add(1)
		go func() {
			defer wg.Done()
			for i := range next {
				if i < 0 {
					pinned[len(fixed)+i] = runFixed(fixed[len(fixed)+i])
				} else if i < nseq {
					results[i] = runSeq(gens[i])
				} else if i < nseq+ninfl {
					results[i] = runInflight(gens[i])
				} else if i < nseq+ninfl+npair {
					results[i] = runStopWait(gens[i])
				} else {
					results[i] = runQueued(gens[i])
				}
			}
		}()
	}
	wg.Wait()
	nops, nhang := 0, 0
	reported := map[string]int{}
	r.Extra["pinned_sequences"] = len(pinned)
	for _, s := range append(pinned, results...) {
		okc := 0
		for _, o := range s.ops {
			if o.result == "ok" {
				okc++
			}
		}
		nops += len(s.ops)
		if s.hung {
			nhang++
		}
		c := s.caseSexp(len(s.ops))
		r.Case(c, sx.List(s.obs), "seq", okc >= 3)
		for _, b := range s.branches {
			r.Hist[b]++
		}
		for _, f := range s.fails {
			if !wants(f.props) {
				continue
			}
			reported[f.key]++
			if reported[f.key] > 5 { // keep the report readable: five replays per key
				continue
			}
			r.Fail(f.key, f.what, s.caseSexp(f.upto), map[string]interface{}{"properties": f.props, "failing_op_index": f.upto})
		}
	}
	delete(r.Hist, "seq")
	r.Hist["sequences"] = nseq + len(pinned) + ninfl + 2*npair
	r.Extra["two_operations_at_once_cases"] = 2 * npair
	r.Extra["stop_with_operation_in_flight_cases"] = ninfl
	r.Extra["operations"] = nops
	r.Extra["sequences_ending_in_hang"] = nhang
	r.Extra["oracle_failures_by_key"] = reported
	r.Extra["oracles_reported_for"] = *propFlag
}
