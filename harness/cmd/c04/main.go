// C04 harness: Codec.Unmarshal into an Fcall and DecodeDir on untrusted
// bytes: valid encodings with length/count fields overwritten by boundary
// values, truncations at every offset, extensions, all 256 type bytes, random
// strings.  Observed: value / error class / panic, the bytes allocated
// (runtime.MemStats.TotalAlloc around the call, single goroutine), and
// whether re-encoding a decoded value decodes to the same value.
package main

import (
	"bytes"
	"encoding/binary"
	"fmt"
	"io"
	"runtime"

	p9p "github.com/frobnitzem/go-p9p"

	"verifharness/internal/prng"
	"verifharness/internal/rep"
	"verifharness/internal/sx"
	"verifharness/internal/wiregen"
)

func errClass(err error) sx.S {
	switch {
	case err == io.EOF:
		return sx.L(sx.Sym("err"), sx.Sym("eof"))
	case err == io.ErrUnexpectedEOF:
		return sx.L(sx.Sym("err"), sx.Sym("ueof"))
	case err != nil && err.Error() == "unknown message type":
		return sx.L(sx.Sym("err"), sx.Sym("unknown"))
	}
	return sx.L(sx.Sym("err"), sx.Sym("other"))
}

var ms runtime.MemStats

func totalAlloc() uint64 {
	runtime.ReadMemStats(&ms)
	return ms.TotalAlloc
}

// remeasure: TotalAlloc is process-wide, so a figure can include what the runtime itself allocated
// meanwhile (rare, and only ever too much).  A figure that is not clearly small is measured again a
// few times on the same input and the minimum is taken: noise adds, it never subtracts.
func remeasure(used uint64, n int, again func()) uint64 {
	if used <= 1024+16*uint64(n) {
		return used
	}
	for i := 0; i < 5; i++ {
		var u uint64
		func() {
			defer func() { recover() }()
			before := totalAlloc()
			again()
			u = totalAlloc() - before
		}()
		if u < used {
			used = u
		}
	}
	return used
}

// allocation the property tolerates for an input of n bytes: a small constant plus a linear function
func allowed(n int) uint64 { return 8192 + 64*uint64(n) }

func decodeFcall(r *rep.Report, codec p9p.Codec, bs []byte, label string) {
	c := sx.L(sx.Sym("dec"), sx.B(bs))
	var fc p9p.Fcall
	var err error
	var used uint64
	panicked := func() (p bool) {
		defer func() {
			if recover() != nil {
				p = true
			}
		}()
		before := totalAlloc()
		err = codec.Unmarshal(bs, &fc)
		used = totalAlloc() - before
		return false
	}()
	if !panicked {
		used = remeasure(used, len(bs), func() { var f2 p9p.Fcall; codec.Unmarshal(bs, &f2) })
	}
	nt := len(bs) > 3
	switch {
	case panicked:
		r.Case(c, sx.L(sx.Sym("panic")), label+":panic", nt)
		r.Fail("encoding.Unmarshal.panic", fmt.Sprintf("Unmarshal panicked on %d bytes (%s)", len(bs), label), c, nil)
		return
	case err != nil:
		r.Case(c, errClass(err), label+":err", nt)
	default:
		r.Case(c, sx.L(sx.Sym("ok"), wiregen.FcallSexp(&fc)), label+":ok", nt)
		// stability: re-encode, decode again, same value
		bs2, e2 := codec.Marshal(&fc)
		var fc2 p9p.Fcall
		if e2 != nil {
			r.Fail("encoding.Unmarshal.unstable", fmt.Sprintf("re-encoding the decoded %v failed: %v", fc.Type, e2), c, nil)
		} else if e3 := codec.Unmarshal(bs2, &fc2); e3 != nil {
			r.Fail("encoding.Unmarshal.unstable", fmt.Sprintf("decoding the re-encoded %v failed: %v", fc.Type, e3), c, nil)
		} else if sx.String(wiregen.FcallSexp(&fc2)) != sx.String(wiregen.FcallSexp(&fc)) {
			r.Fail("encoding.Unmarshal.unstable", fmt.Sprintf("decode(encode(decode(bytes))) differs for %v", fc.Type), c, nil)
		}
	}
	// allocation: direct oracle, and the measured figure goes to the model as a case of its own
	if used > allowed(len(bs)) {
		r.Fail("encoding.Unmarshal.alloc", fmt.Sprintf("Unmarshal of %d bytes (%s) allocated %d bytes; the property allows a small constant plus linear (%d)", len(bs), label, used, allowed(len(bs))), c,
			map[string]interface{}{"allocated": used, "input_len": len(bs)})
	}
	r.Case(sx.L(sx.Sym("alloc"), sx.B(bs), sx.U(used)), sx.Sym("ok"), "alloc", nt)
}

// plainReader hides bytes.Reader's Len(): DecodeDir cannot tell how much input is left.
type plainReader struct{ r *bytes.Reader }

func (p plainReader) Read(b []byte) (int, error) { return p.r.Read(b) }

func decodeDirStream(r *rep.Report, codec p9p.Codec, bs []byte, label string) {
	c := sx.L(sx.Sym("decdir-stream"), sx.B(bs))
	var d p9p.Dir
	var err error
	br := bytes.NewReader(bs)
	panicked := func() (p bool) {
		defer func() {
			if recover() != nil {
				p = true
			}
		}()
		err = p9p.DecodeDir(codec, plainReader{br}, &d)
		return false
	}()
	switch {
	case panicked:
		r.Case(c, sx.L(sx.Sym("panic")), label+":panic", true)
		r.Fail("encoding.DecodeDir.panic", fmt.Sprintf("DecodeDir panicked on % x… (%d bytes, %s, reader without Len)", bs[:minInt(len(bs), 8)], len(bs), label), c, nil)
	case err != nil:
		r.Case(c, errClass(err), label+":err", true)
	default:
		r.Case(c, sx.L(sx.Sym("ok"), sx.List(wiregen.DirFields(d)), sx.I(int64(br.Len()))), label+":ok", true)
	}
}

func decodeDir(r *rep.Report, codec p9p.Codec, bs []byte, label string) {
	c := sx.L(sx.Sym("decdir"), sx.B(bs))
	var d p9p.Dir
	var err error
	var used uint64
	rd := bytes.NewReader(bs)
	panicked := func() (p bool) {
		defer func() {
			if recover() != nil {
				p = true
			}
		}()
		before := totalAlloc()
		err = p9p.DecodeDir(codec, rd, &d)
		used = totalAlloc() - before
		return false
	}()
	if !panicked {
		used = remeasure(used, len(bs), func() { var d2 p9p.Dir; p9p.DecodeDir(codec, bytes.NewReader(bs), &d2) })
	}
	nt := len(bs) > 1
	switch {
	case panicked:
		r.Case(c, sx.L(sx.Sym("panic")), label+":panic", nt)
		r.Fail("encoding.DecodeDir.panic", fmt.Sprintf("DecodeDir panicked on % x… (%d bytes, %s)", bs[:minInt(len(bs), 8)], len(bs), label), c, nil)
		return
	case err != nil:
		r.Case(c, errClass(err), label+":err", nt)
	default:
		r.Case(c, sx.L(sx.Sym("ok"), sx.List(wiregen.DirFields(d)), sx.I(int64(rd.Len()))), label+":ok", nt)
		var b bytes.Buffer
		var d2 p9p.Dir
		if e2 := p9p.EncodeDir(codec, &b, &d); e2 != nil {
			r.Fail("encoding.DecodeDir.unstable", fmt.Sprintf("re-encoding failed: %v", e2), c, nil)
		} else if e3 := p9p.DecodeDir(codec, bytes.NewReader(b.Bytes()), &d2); e3 != nil {
			r.Fail("encoding.DecodeDir.unstable", fmt.Sprintf("decoding the re-encoded entry failed: %v", e3), c, nil)
		} else if sx.String(sx.List(wiregen.DirFields(d2))) != sx.String(sx.List(wiregen.DirFields(d))) {
			r.Fail("encoding.DecodeDir.unstable", "decode(encode(decode(bytes))) differs", c, nil)
		}
	}
	if used > allowed(len(bs)) {
		r.Fail("encoding.DecodeDir.alloc", fmt.Sprintf("DecodeDir of %d bytes (%s) allocated %d bytes; allowed %d", len(bs), label, used, allowed(len(bs))), c,
			map[string]interface{}{"allocated": used, "input_len": len(bs)})
	}
	r.Case(sx.L(sx.Sym("allocdir"), sx.B(bs), sx.U(used)), sx.Sym("ok"), "allocdir", nt)
}

var claims16 = func() []uint16 {
	v := []uint16{0, 1, 2, 0x7fff, 0x8000, 0x8001, 0xfffd, 0xfffe, 0xffff}
	for j := 1; j <= 12; j++ { // counts n with 13*n just past a multiple of 2^16 (a bound computed in 16 bits wraps to a tiny value)
		v = append(v, uint16((65536*j+12)/13))
	}
	for j := 1; j <= 3; j++ {
		v = append(v, uint16((65536*j+31)/32), uint16((65536*j+15)/16))
	}
	return v
}()
var claims32 = []uint32{0, 1, 0xffff, 0x10000, 1 << 20, 1 << 24, 0x7fffffff, 0x80000000, 0xfffffffe, 0xffffffff}

func main() {
	r := rep.Open()
	defer r.Close()
	r.Rule = "valid encodings of all 27 kinds with every 2-byte window overwritten by {0,1,2,0x7fff,0x8000,0xfffd,0xfffe,0xffff} and every 4-byte window by {0,1,0xffff,2^16,2^20,2^24,2^31-1,2^31,2^32-2,2^32-1}, truncations at every offset, random extensions, all 256 type bytes, random strings; the same for stat records through DecodeDir. Non-trivial: inputs longer than the type+tag header; distinct by canonical text."
	rng := prng.New(r.Seed)
	codec := p9p.NewCodec()
	runtime.GC()

	perType := r.N(2, 12)
	for _, t := range wiregen.AllTypes {
		for k := 0; k < perType; k++ {
			fc := wiregen.GenFcall(rng, t, 40)
			switch m := fc.Message.(type) { // keep the seeds small: the mutations are what matters
			case p9p.MessageTwalk:
				if len(m.Wnames) > 5 {
					m.Wnames = m.Wnames[:5]
					fc.Message = m
				}
			case p9p.MessageRwalk:
				if len(m.Qids) > 4 {
					m.Qids = m.Qids[:4]
					fc.Message = m
				}
			}
			bs, err := codec.Marshal(fc)
			if err != nil || len(bs) > 700 {
				continue
			}
			decodeFcall(r, codec, bs, "valid")
			for i := 0; i <= len(bs); i++ { // truncations at every offset
				decodeFcall(r, codec, bs[:i], "trunc")
			}
			ext := append(append([]byte{}, bs...), rng.Bytes(rng.Range(1, 20))...)
			decodeFcall(r, codec, ext, "extended")
			step := 1
			if !r.Thorough() && len(bs) > 60 {
				step = 3
			}
			for i := 3; i+2 <= len(bs); i += step {
				for _, v := range claims16 {
					m := append([]byte{}, bs...)
					binary.LittleEndian.PutUint16(m[i:], v)
					decodeFcall(r, codec, m, "claim16")
				}
			}
			for i := 3; i+4 <= len(bs); i += step {
				for _, v := range claims32 {
					if !r.Thorough() && v >= 1<<31 && rng.Chance(3, 4) {
						continue
					}
					m := append([]byte{}, bs...)
					binary.LittleEndian.PutUint32(m[i:], v)
					decodeFcall(r, codec, m, "claim32")
				}
			}
		}
	}
	// valid encodings beyond the client's 16-element walk limit (the codec has no such limit): they must
	// decode, re-encode and decode again like any other message
	for _, n := range []int{16, 17, 18, 40, 300} {
		names := make([]string, n)
		qids := make([]p9p.Qid, n)
		for i := range names {
			names[i] = string(rune('a' + i%26))
			qids[i] = wiregen.GenQid(rng)
		}
		for _, fc := range []*p9p.Fcall{
			{Type: p9p.Twalk, Tag: 3, Message: p9p.MessageTwalk{Fid: 1, Newfid: 2, Wnames: names}},
			{Type: p9p.Rwalk, Tag: 3, Message: p9p.MessageRwalk{Qids: qids}},
		} {
			if bs, ok := wiregen.RefEncode(fc); ok {
				decodeFcall(r, codec, bs, "long-list")
				decodeFcall(r, codec, bs[:len(bs)-1], "long-list-trunc")
			}
		}
	}
	for t := 0; t < 256; t++ {
		decodeFcall(r, codec, append([]byte{byte(t)}, rng.Bytes(rng.Range(0, 40))...), "typebyte")
	}
	for i := 0; i < r.N(1500, 30000); i++ {
		decodeFcall(r, codec, rng.Bytes(rng.Range(0, 64)), "random")
	}
	// the minimal hostile inputs of DESIGN.md section 5
	decodeFcall(r, codec, []byte{byte(p9p.Rread), 0, 0, 0xff, 0xff, 0xff, 0xff}, "claim32")
	decodeFcall(r, codec, []byte{byte(p9p.Twalk), 0, 0, 1, 0, 0, 0, 2, 0, 0, 0, 0xff, 0xff}, "claim16")
	decodeFcall(r, codec, []byte{byte(p9p.Rwalk), 0, 0, 0xff, 0xff}, "claim16")
	decodeFcall(r, codec, []byte{byte(p9p.Rerror), 0, 0, 0xff, 0xff}, "claim16")

	// DecodeDir
	for k := 0; k < r.N(25, 300); k++ {
		d := wiregen.GenDir(rng)
		if len(d.Name)+len(d.UID)+len(d.GID)+len(d.MUID) > 300 {
			d.Name, d.UID = "n", "u"
			if len(d.GID)+len(d.MUID) > 300 {
				d.GID, d.MUID = "g", ""
			}
		}
		bs := wiregen.RefStat(d)
		decodeDir(r, codec, bs, "dir-valid")
		decodeDir(r, codec, append(append([]byte{}, bs...), rng.Bytes(rng.Range(1, 30))...), "dir-extended")
		for i := 0; i <= len(bs); i += 1 + rng.Intn(3) {
			decodeDir(r, codec, bs[:i], "dir-trunc")
		}
		for i := 0; i+2 <= len(bs); i += 1 + rng.Intn(4) {
			for _, v := range claims16 {
				m := append([]byte{}, bs...)
				binary.LittleEndian.PutUint16(m[i:], v)
				decodeDir(r, codec, m, "dir-claim16")
			}
		}
	}
	for _, v := range claims16 {
		decodeDir(r, codec, []byte{byte(v), byte(v >> 8)}, "dir-claim16")
		decodeDir(r, codec, append([]byte{byte(v), byte(v >> 8)}, rng.Bytes(50)...), "dir-claim16")
		decodeDirStream(r, codec, []byte{byte(v), byte(v >> 8)}, "dirstream-claim16")
		decodeDirStream(r, codec, append([]byte{byte(v), byte(v >> 8)}, rng.Bytes(50)...), "dirstream-claim16")
	}
	// size fields at the top of the 16-bit range WITH that many bytes behind them (size arithmetic must not wrap)
	for _, v := range []int{0xfffd, 0xfffe, 0xffff} {
		d := wiregen.GenDir(rng)
		rec := wiregen.RefStat(d)[2:]
		full := append([]byte{byte(v), byte(v >> 8)}, rec...)
		full = append(full, make([]byte, v-len(rec)+rng.Intn(3))...)
		decodeDir(r, codec, full, "dir-maxsize")
		decodeDirStream(r, codec, full, "dirstream-maxsize")
	}
	for k := 0; k < r.N(20, 200); k++ {
		bs := wiregen.RefStat(wiregen.GenDir(rng))
		decodeDirStream(r, codec, bs, "dirstream-valid")
		decodeDirStream(r, codec, bs[:rng.Intn(len(bs)+1)], "dirstream-trunc")
	}
	for i := 0; i < r.N(500, 10000); i++ {
		decodeDir(r, codec, rng.Bytes(rng.Range(0, 80)), "dir-random")
	}
}

func minInt(a, b int) int {
	if a < b {
		return a
	}
	return b
}
