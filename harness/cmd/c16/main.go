// C16 harness: runs path.go's helpers (and Go's path.Clean/Join, which the
// model re-implements) on an exhaustive grid of special-form names plus random
// byte strings, prints case/observation lines for the Coq model to be compared
// with, and applies direct oracles written from the property text.
package main

import (
	"fmt"
	"path"
	"strings"

	p9p "github.com/frobnitzem/go-p9p"

	"verifharness/internal/prng"
	"verifharness/internal/rep"
	"verifharness/internal/sx"
)

var alphabet = []string{"", ".", "..", "a", "a/b", "a\\b", "...", "..a", "/", "b", "\\a", "a\\", "/a", "\\", "x..y"}
var dirs = [][]string{{}, {"x"}, {"x", "y"}, {"x", "y", "z"}}

func render(comps []string) string { return "/" + strings.Join(comps, "/") }

func safe(s string) bool {
	return s != "" && s != "." && !strings.ContainsAny(s, "/\\")
}

// oracleValid: straight from the property text.
func oracleValid(ns []string) int {
	n := 0
	lead := true
	for _, s := range ns {
		if !safe(s) {
			return -1
		}
		if s == ".." {
			if !lead {
				return -1
			}
			n++
		} else {
			lead = false
		}
	}
	return n
}

// resolve: stepwise resolution of names from dir; ok=false when it climbs above root.
func resolve(dir []string, ns []string) ([]string, bool) {
	cur := append([]string{}, dir...)
	for _, s := range ns {
		if s == ".." {
			if len(cur) == 0 {
				return nil, false
			}
			cur = cur[:len(cur)-1]
		} else {
			cur = append(cur, s)
		}
	}
	return cur, true
}

// resolveLenient: "" and "." are no-ops, ".." pops; may go above root (counted).
func resolveLenient(dir []string, ns []string) ([]string, bool) {
	cur := append([]string{}, dir...)
	for _, s := range ns {
		switch s {
		case "", ".":
		case "..":
			if len(cur) == 0 {
				return nil, false
			}
			cur = cur[:len(cur)-1]
		default:
			cur = append(cur, s)
		}
	}
	return cur, true
}

func canonical(p string) bool {
	if !strings.HasPrefix(p, "/") || strings.Contains(p, "\\") {
		return false
	}
	if p == "/" {
		return true
	}
	for _, c := range strings.Split(p[1:], "/") {
		if c == "" || c == "." || c == ".." {
			return false
		}
	}
	return true
}

func catch(f func()) (panicked bool) {
	defer func() {
		if recover() != nil {
			panicked = true
		}
	}()
	f()
	return false
}

func main() {
	r := rep.Open()
	defer r.Close()
	r.Rule = "exhaustive grid: all name lists of length<=4 over {'', '.', '..', a, a/b, a\\b, ..., ..a, /, b, \\a, a\\, /a, \\, x..y} x canonical dirs of depth 0..3 for ValidPath/NormalizePath/WalkName; CreateName over dirs x alphabet; ToWalk/path.Clean over all strings of length<=7 over {/ . a \\}; plus every name of length<=4 over {. / \\ a} alone and beside '..', '.', a; plus random byte-string names. A case is non-trivial when its name list or string is non-empty; distinct by canonical case text."
	rng := prng.New(r.Seed)

	var lists [][]string
	var gen func(cur []string, depth int)
	gen = func(cur []string, depth int) {
		lists = append(lists, append([]string{}, cur...))
		if depth == 0 {
			return
		}
		for _, a := range alphabet {
			gen(append(cur, a), depth-1)
		}
	}
	maxlen := 4
	gen(nil, maxlen)
	// long lists (the wire limit of 16 walk elements must not leak into the helpers): safe names,
	// with 0..3 leading ".." and occasionally one bad element at the end
	for _, n := range []int{15, 16, 17, 18, 32, 33, 40, 100} {
		for lead := 0; lead <= 3; lead++ {
			l := make([]string, 0, n+1)
			for i := 0; i < lead; i++ {
				l = append(l, "..")
			}
			for i := lead; i < n; i++ {
				l = append(l, string(rune('a'+i%26)))
			}
			lists = append(lists, l)
			lists = append(lists, append(append([]string{}, l...), alphabet[(n+lead)%len(alphabet)]))
		}
	}
	// every name of length <= 4 over { . / \ a }, alone and next to "..", "." and a plain name on either side
	// (a check that is skipped for names of one shape only, e.g. names that start with a dot)
	var special []string
	var genName func(cur string, depth int)
	genName = func(cur string, depth int) {
		if cur != "" {
			special = append(special, cur)
		}
		if depth == 0 {
			return
		}
		for _, ch := range []string{".", "/", "\\", "a"} {
			genName(cur+ch, depth-1)
		}
	}
	genName("", 4)
	for _, sp := range special {
		lists = append(lists, []string{sp})
		for _, other := range []string{"..", ".", "a"} {
			lists = append(lists, []string{sp, other}, []string{other, sp})
		}
		lists = append(lists, []string{"a", sp, ".."}, []string{"a", "b", sp, "..", ".."})
	}
	nlong := 64
	// random lists: names from alphabet plus random bytes
	nrand := r.N(2000, 40000)
	for i := 0; i < nrand; i++ {
		n := rng.Intn(7)
		l := make([]string, n)
		for j := range l {
			switch rng.Intn(4) {
			case 0:
				l[j] = string(rng.Bytes(rng.Intn(5)))
			case 1:
				l[j] = ".."
				if rng.Chance(1, 3) {
					l[j] = special[rng.Intn(len(special))]
				}
			default:
				l[j] = alphabet[rng.Intn(len(alphabet))]
			}
		}
		lists = append(lists, l)
	}

	for _, ns := range lists {
		nt := len(ns) > 0
		// ValidPath
		v := p9p.ValidPath(ns)
		c := sx.L(sx.Sym("valid"), sx.Strs(ns))
		r.Case(c, sx.I(int64(v)), fmt.Sprintf("valid:%v", v >= 0), nt)
		if want := oracleValid(ns); want != v {
			r.Fail("path.ValidPath", fmt.Sprintf("ValidPath(%q) = %d, the property demands %d", ns, v, want), c, nil)
		}
		// NormalizePath (documented as functional: it must not write into its argument)
		keep := append([]string{}, ns...)
		steps, k := p9p.NormalizePath(ns)
		for i := range keep {
			if ns[i] != keep[i] {
				r.Fail("path.NormalizePath.argument-modified", fmt.Sprintf("NormalizePath overwrote its argument: %q became %q", keep, ns), sx.L(sx.Sym("norm"), sx.Strs(keep)), nil)
				copy(ns, keep)
				break
			}
		}
		c = sx.L(sx.Sym("norm"), sx.Strs(ns))
		r.Case(c, sx.L(sx.Strs(steps), sx.I(int64(k))), fmt.Sprintf("norm:%v", k >= 0), nt)
		if k >= 0 {
			steps2, k2 := p9p.NormalizePath(steps)
			if k2 != k || strings.Join(steps2, "\x00") != strings.Join(steps, "\x00") || len(steps2) != len(steps) {
				r.Fail("path.NormalizePath.idempotent", fmt.Sprintf("NormalizePath(%q) = %q,%d but normalising that gives %q,%d", ns, steps, k, steps2, k2), c, nil)
			}
			if vv := p9p.ValidPath(steps); vv != k {
				r.Fail("path.NormalizePath.valid", fmt.Sprintf("NormalizePath(%q) = %q,%d but ValidPath of it is %d", ns, steps, k, vv), c, nil)
			}
			for _, d := range dirs {
				a, okA := resolveLenient(d, ns)
				b, okB := resolve(d, steps)
				if okA != okB || (okA && strings.Join(a, "/") != strings.Join(b, "/")) {
					if okA || k <= len(d) {
						r.Fail("path.NormalizePath.resolve", fmt.Sprintf("from %q: lenient resolution of %q = %q,%v but resolution of normalised %q = %q,%v", d, ns, a, okA, steps, b, okB), c, nil)
					}
				}
			}
		}
		// WalkName
		for _, d := range dirs {
			dir := render(d)
			var p string
			var err error
			c = sx.L(sx.Sym("walk"), sx.Str(dir), sx.Strs(ns))
			if catch(func() { p, err = p9p.WalkName(dir, ns...) }) {
				r.Case(c, sx.L(sx.Sym("panic")), "walk:panic", nt)
				r.Fail("path.WalkName.panic", fmt.Sprintf("WalkName(%q,%q) panicked", dir, ns), c, nil)
				continue
			}
			want, okW := resolve(d, ns)
			accept := oracleValid(ns) >= 0 && okW
			if err != nil {
				r.Case(c, sx.L(sx.Sym("err")), "walk:err", nt)
				if accept {
					r.Fail("path.WalkName.reject", fmt.Sprintf("WalkName(%q,%q) rejected a safe walk", dir, ns), c, nil)
				}
			} else {
				r.Case(c, sx.L(sx.Sym("ok"), sx.Str(p)), "walk:ok", nt)
				if !accept {
					r.Fail("path.WalkName.accept", fmt.Sprintf("WalkName(%q,%q) = %q accepted a walk the property rejects", dir, ns, p), c, nil)
				} else if p != render(want) || !canonical(p) {
					r.Fail("path.WalkName.result", fmt.Sprintf("WalkName(%q,%q) = %q, stepwise resolution gives %q", dir, ns, p, render(want)), c, nil)
				}
			}
		}
		// path.Join on the list itself (model of the Go library)
		c = sx.L(sx.Sym("join"), sx.Strs(ns))
		r.Case(c, sx.Str(path.Join(ns...)), "join", nt)
	}

	// CreateName
	var names []string
	names = append(names, alphabet...)
	for i := 0; i < r.N(500, 10000); i++ {
		names = append(names, string(rng.Bytes(rng.Intn(6))))
	}
	for _, d := range dirs {
		dir := render(d)
		for _, nm := range names {
			p, err := p9p.CreateName(dir, nm)
			c := sx.L(sx.Sym("create"), sx.Str(dir), sx.Str(nm))
			accept := safe(nm) && nm != ".."
			if err != nil {
				r.Case(c, sx.L(sx.Sym("err")), "create:err", true)
				if accept {
					r.Fail("path.CreateName.reject", fmt.Sprintf("CreateName(%q,%q) rejected a safe name", dir, nm), c, nil)
				}
			} else {
				r.Case(c, sx.L(sx.Sym("ok"), sx.Str(p)), "create:ok", true)
				if !accept {
					r.Fail("path.CreateName.accept", fmt.Sprintf("CreateName(%q,%q) = %q accepted an unsafe name", dir, nm, p), c, nil)
				} else if p != render(append(append([]string{}, d...), nm)) || !canonical(p) {
					r.Fail("path.CreateName.result", fmt.Sprintf("CreateName(%q,%q) = %q", dir, nm, p), c, nil)
				}
			}
		}
	}

	// ToWalk and path.Clean over all short strings over {/ . a \}
	sym := []byte{'/', '.', 'a', '\\'}
	var strs []string
	var gens func(cur []byte, depth int)
	gens = func(cur []byte, depth int) {
		strs = append(strs, string(cur))
		if depth == 0 {
			return
		}
		for _, a := range sym {
			gens(append(cur, a), depth-1)
		}
	}
	gens(nil, 7)
	for _, s := range strs {
		isAbs, steps, err := p9p.ToWalk(nil, s)
		c := sx.L(sx.Sym("towalk"), sx.Str(s))
		if err != nil {
			r.Case(c, sx.L(sx.Sym("err"), sx.Bool(isAbs)), "towalk:err", s != "")
		} else {
			r.Case(c, sx.L(sx.Sym("ok"), sx.Bool(isAbs), sx.Strs(steps)), "towalk:ok", s != "")
			if v := p9p.ValidPath(steps); v < 0 || (isAbs && v != 0) {
				r.Fail("path.ToWalk.valid", fmt.Sprintf("ToWalk(%q) = %v,%q whose ValidPath is %d", s, isAbs, steps, v), c, nil)
			}
		}
		c = sx.L(sx.Sym("clean"), sx.Str(s))
		r.Case(c, sx.Str(path.Clean(s)), "clean", s != "")
	}
	r.Extra["exhaustive"] = true
	r.Extra["grid_lists"] = len(lists) - nrand - nlong
}
