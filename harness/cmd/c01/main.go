// C01 harness: Marshal / Size / Unmarshal of all 27 message kinds on a
// boundary-dense grid plus random values; the Coq model must produce the same
// bytes, size and decoded value, and a reference encoder written from the
// manual (internal/wiregen) is the direct oracle.
package main

import (
	"bytes"
	"fmt"
	"io"
	"time"

	p9p "github.com/frobnitzem/go-p9p"

	"verifharness/internal/prng"
	"verifharness/internal/rep"
	"verifharness/internal/sx"
	"verifharness/internal/wiregen"
)

func errClass(err error) sx.S {
	switch {
	case err == io.EOF:
		return sx.L(sx.Sym("err"), sx.Sym("eof"))
	case err == io.ErrUnexpectedEOF:
		return sx.L(sx.Sym("err"), sx.Sym("ueof"))
	case err != nil && err.Error() == "unknown message type":
		return sx.L(sx.Sym("err"), sx.Sym("unknown"))
	}
	return sx.L(sx.Sym("err"), sx.Sym("other"))
}

func main() {
	r := rep.Open()
	defer r.Close()
	r.Rule = "27 message kinds x boundary grid (integers 0/1/0x7f../max, strings empty..65535 incl. non-UTF-8 and NUL, name/qid lists 0/1/16/17/300/65535, data 0..70000, every Dir field) + random; plus non-representable values (sub-second and out-of-range times) for the correspondence only. Non-trivial: every generated message; distinct by canonical text."
	rng := prng.New(r.Seed)
	codec := p9p.NewCodec()
	per := r.N(80, 2500)
	maxData := 70000
	for _, t := range wiregen.AllTypes {
		for i := 0; i < per; i++ {
			fc := wiregen.GenFcall(rng, t, maxData)
			wf := true
			if i%17 == 16 { // non-representable timestamps: correspondence only
				switch m := fc.Message.(type) {
				case p9p.MessageRstat:
					m.Stat.AccessTime = time.Unix(int64(rng.PickU64(1<<32, 1<<33+5, 1<<40)), int64(rng.Intn(1e9)))
					m.Stat.ModTime = time.Unix(-int64(rng.Intn(1000)+1), 500)
					fc.Message = m
					wf = false
				case p9p.MessageTwstat:
					m.Stat.ModTime = time.Unix(int64(rng.Intn(1<<31)), int64(rng.Intn(1e9)))
					fc.Message = m
					wf = false
				}
			}
			one(r, codec, fc, wf)
		}
	}
	// directory entries on their own: EncodeDir
	for i := 0; i < r.N(200, 5000); i++ {
		d := wiregen.GenDir(rng)
		var b bytes.Buffer
		if err := p9p.EncodeDir(codec, &b, &d); err != nil {
			r.Fail("codec.EncodeDir.error", fmt.Sprintf("EncodeDir failed: %v", err), nil, nil)
			continue
		}
		c := sx.L(sx.Sym("encdir"), sx.List(wiregen.DirFields(d)))
		r.Case(c, sx.B(b.Bytes()), "encdir", true)
		if ref := wiregen.RefStat(d); !bytes.Equal(ref, b.Bytes()) {
			r.Fail("codec.EncodeDir.layout", "EncodeDir bytes differ from the manual's stat layout", c, map[string]interface{}{"want": fmt.Sprintf("%x", ref), "got": fmt.Sprintf("%x", b.Bytes())})
		}
	}
}

func one(r *rep.Report, codec p9p.Codec, fc *p9p.Fcall, wf bool) {
	c := sx.L(sx.Sym("enc"), wiregen.FcallSexp(fc))
	bs, err := codec.Marshal(fc)
	if err != nil {
		r.Case(c, sx.L(sx.Sym("marshal-error")), "enc:error", true)
		r.Fail("codec.Marshal.error", fmt.Sprintf("Marshal of a %v failed: %v", fc.Type, err), c, nil)
		return
	}
	size := codec.Size(fc)
	var back p9p.Fcall
	var dec sx.S
	derr := codec.Unmarshal(bs, &back)
	if derr != nil {
		dec = errClass(derr)
	} else {
		dec = sx.L(sx.Sym("ok"), wiregen.FcallSexp(&back))
	}
	r.Case(c, sx.L(sx.B(bs), sx.I(int64(size)), dec), "enc:"+fc.Type.String(), true)
	// the same message in pointer form must encode to the same bytes with the same size
	pf := &p9p.Fcall{Type: fc.Type, Tag: fc.Tag, Message: wiregen.Pointer(fc.Message)}
	if pbs, perr := codec.Marshal(pf); perr != nil || !bytes.Equal(pbs, bs) || codec.Size(pf) != size {
		r.Fail("codec."+fc.Type.String()+".pointer-form", fmt.Sprintf("%v passed as a pointer: Marshal/Size differ from the value form (%d bytes, size %d vs %d bytes, size %d; err %v)", fc.Type, len(pbs), codec.Size(pf), len(bs), size, perr), c, nil)
	}
	if !wf {
		return
	}
	key := "codec." + fc.Type.String()
	if ref, ok := wiregen.RefEncode(fc); !ok || !bytes.Equal(ref, bs) {
		r.Fail(key+".layout", fmt.Sprintf("Marshal(%v) differs from the 9P2000 manual's layout", fc.Type), c,
			map[string]interface{}{"want": fmt.Sprintf("%.400x", ref), "got": fmt.Sprintf("%.400x", bs)})
	}
	if size != len(bs) {
		r.Fail(key+".size", fmt.Sprintf("Size(%v) = %d but Marshal produced %d bytes", fc.Type, size, len(bs)), c, nil)
	}
	if derr != nil {
		r.Fail(key+".roundtrip", fmt.Sprintf("Unmarshal(Marshal(%v)) failed: %v", fc.Type, derr), c, nil)
	} else if sx.String(wiregen.FcallSexp(&back)) != sx.String(wiregen.FcallSexp(fc)) {
		r.Fail(key+".roundtrip", fmt.Sprintf("Unmarshal(Marshal(%v)) is a different message", fc.Type), c,
			map[string]interface{}{"decoded": sx.String(wiregen.FcallSexp(&back))})
	}
}
