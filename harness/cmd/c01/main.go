// C01 harness: Marshal / Size / Unmarshal of all 27 message kinds on a
// boundary-dense grid plus random values; the Coq model must produce the same
// bytes, size and decoded value, and a reference encoder written from the
// manual (internal/wiregen) is the direct oracle.
package main

import (
	"bytes"
	"fmt"
	"io"
	"time"

	p9p "github.com/frobnitzem/go-p9p"

	"verifharness/internal/prng"
	"verifharness/internal/rep"
	"verifharness/internal/sx"
	"verifharness/internal/wiregen"
)

func errClass(err error) sx.S {
	switch {
	case err == io.EOF:
		return sx.L(sx.Sym("err"), sx.Sym("eof"))
	case err == io.ErrUnexpectedEOF:
		return sx.L(sx.Sym("err"), sx.Sym("ueof"))
	case err != nil && err.Error() == "unknown message type":
		return sx.L(sx.Sym("err"), sx.Sym("unknown"))
	}
	return sx.L(sx.Sym("err"), sx.Sym("other"))
}

func main() {
	r := rep.Open()
	defer r.Close()
	r.Rule = "27 message kinds x boundary grid (integers 0/1/0x7f../max, strings empty..65535 incl. non-UTF-8 and NUL, name/qid lists 0/1/16/17/300/65535, data 0..70000, every Dir field) + random; sweeps over EVERY string/data length 0..700 (thorough 0..4200) and 2^k-3..2^k+3 up to 65535 in each variable-length field, and every list count 0..40 and around 2^k, 65536/13, 65536/14 (thorough up to 65535); plus non-representable values (sub-second and out-of-range times) for the correspondence only. Non-trivial: every generated message; distinct by canonical text."
	rng := prng.New(r.Seed)
	codec := p9p.NewCodec()
	per := r.N(80, 2500)
	maxData := 70000
	for _, t := range wiregen.AllTypes {
		for i := 0; i < per; i++ {
			fc := wiregen.GenFcall(rng, t, maxData)
			wf := true
			if i%17 == 16 { // non-representable timestamps: correspondence only
				switch m := fc.Message.(type) {
				case p9p.MessageRstat:
					m.Stat.AccessTime = time.Unix(int64(rng.PickU64(1<<32, 1<<33+5, 1<<40)), int64(rng.Intn(1e9)))
					m.Stat.ModTime = time.Unix(-int64(rng.Intn(1000)+1), 500)
					fc.Message = m
					wf = false
				case p9p.MessageTwstat:
					m.Stat.ModTime = time.Unix(int64(rng.Intn(1<<31)), int64(rng.Intn(1e9)))
					fc.Message = m
					wf = false
				}
			}
			one(r, codec, fc, wf)
		}
	}
	// sweeps: EVERY length in an initial range and every length next to a power of two (a fast path,
	// scratch buffer or narrower temporary is wrong at one length only), for each kind of
	// variable-length field in turn
	lens := []int{}
	for l := 0; l <= r.N(700, 4200); l++ {
		lens = append(lens, l)
	}
	for k := 9; k <= 16; k++ {
		for d := -3; d <= 3; d++ {
			if l := 1<<uint(k) + d; l > r.N(700, 4200) && l <= 65535 {
				lens = append(lens, l)
			}
		}
	}
	fill := func(n int) string {
		b := make([]byte, n)
		for i := range b {
			b[i] = byte('a' + (i*7+n)%26)
		}
		return string(b)
	}
	for i, l := range lens {
		str := fill(l)
		var m p9p.Message
		switch i % 9 {
		case 0:
			m = p9p.MessageTversion{MSize: 8192, Version: str}
		case 1:
			m = p9p.MessageRerror{Ename: str}
		case 2:
			m = p9p.MessageTattach{Fid: 1, Afid: p9p.NOFID, Uname: str, Aname: "a"}
		case 3:
			m = p9p.MessageTattach{Fid: 1, Afid: p9p.NOFID, Uname: "u", Aname: str}
		case 4:
			m = p9p.MessageTcreate{Fid: 2, Name: str, Perm: 0644, Mode: 1}
		case 5:
			m = p9p.MessageTwalk{Fid: 1, Newfid: 2, Wnames: []string{"x", str}}
		case 6:
			d := wiregen.GenDir(rng)
			d.Name, d.UID, d.GID, d.MUID = "n", "u", "g", "m"
			switch (i / 9) % 4 {
			case 0:
				d.Name = str
			case 1:
				d.UID = str
			case 2:
				d.GID = str
			default:
				d.MUID = str
			}
			if 49+len(d.Name)+len(d.UID)+len(d.GID)+len(d.MUID) > 65535 {
				continue // not a representable stat record
			}
			m = p9p.MessageRstat{Stat: d}
		case 7:
			m = p9p.MessageTwrite{Fid: 3, Offset: uint64(l), Data: []byte(str)}
		default:
			m = p9p.MessageRread{Data: []byte(str)}
		}
		t, _ := messageType(m)
		one(r, codec, &p9p.Fcall{Type: t, Tag: p9p.Tag(i), Message: m}, true)
	}
	counts := []int{}
	for n := 0; n <= 40; n++ {
		counts = append(counts, n)
	}
	for _, n := range []int{255, 256, 257, 1023, 1024, 1025, 4095, 4096, 4097, 4680, 4681, 4682, 5040, 5041, 5042, 5043, 8191, 8192, 8193} {
		counts = append(counts, n)
	}
	if r.N(0, 1) == 1 {
		counts = append(counts, 16383, 16384, 16385, 21845, 21846, 32767, 32768, 32769, 65534, 65535)
	}
	for i, n := range counts {
		names := make([]string, n)
		qids := make([]p9p.Qid, n)
		for j := range names {
			names[j] = "ab"[:(i+j)%3]
			qids[j] = p9p.Qid{Type: p9p.QType(j), Version: uint32(j), Path: uint64(j) << 20}
		}
		one(r, codec, &p9p.Fcall{Type: p9p.Twalk, Tag: p9p.Tag(i), Message: p9p.MessageTwalk{Fid: 1, Newfid: 2, Wnames: names}}, true)
		one(r, codec, &p9p.Fcall{Type: p9p.Rwalk, Tag: p9p.Tag(i), Message: p9p.MessageRwalk{Qids: qids}}, true)
	}
	// directory entries on their own: EncodeDir
	for i := 0; i < r.N(200, 5000); i++ {
		d := wiregen.GenDir(rng)
		var b bytes.Buffer
		if err := p9p.EncodeDir(codec, &b, &d); err != nil {
			r.Fail("codec.EncodeDir.error", fmt.Sprintf("EncodeDir failed: %v", err), nil, nil)
			continue
		}
		c := sx.L(sx.Sym("encdir"), sx.List(wiregen.DirFields(d)))
		r.Case(c, sx.B(b.Bytes()), "encdir", true)
		if ref := wiregen.RefStat(d); !bytes.Equal(ref, b.Bytes()) {
			r.Fail("codec.EncodeDir.layout", "EncodeDir bytes differ from the manual's stat layout", c, map[string]interface{}{"want": fmt.Sprintf("%x", ref), "got": fmt.Sprintf("%x", b.Bytes())})
		}
	}
}

func messageType(m p9p.Message) (p9p.FcallType, bool) {
	return m.Type(), true
}

func one(r *rep.Report, codec p9p.Codec, fc *p9p.Fcall, wf bool) {
	c := sx.L(sx.Sym("enc"), wiregen.FcallSexp(fc))
	bs, err := codec.Marshal(fc)
	if err != nil {
		r.Case(c, sx.L(sx.Sym("marshal-error")), "enc:error", true)
		r.Fail("codec.Marshal.error", fmt.Sprintf("Marshal of a %v failed: %v", fc.Type, err), c, nil)
		return
	}
	size := codec.Size(fc)
	var back p9p.Fcall
	var dec sx.S
	derr := codec.Unmarshal(bs, &back)
	if derr != nil {
		dec = errClass(derr)
	} else {
		dec = sx.L(sx.Sym("ok"), wiregen.FcallSexp(&back))
	}
	r.Case(c, sx.L(sx.B(bs), sx.I(int64(size)), dec), "enc:"+fc.Type.String(), true)
	// the same message in pointer form must encode to the same bytes with the same size
	pf := &p9p.Fcall{Type: fc.Type, Tag: fc.Tag, Message: wiregen.Pointer(fc.Message)}
	if pbs, perr := codec.Marshal(pf); perr != nil || !bytes.Equal(pbs, bs) || codec.Size(pf) != size {
		r.Fail("codec."+fc.Type.String()+".pointer-form", fmt.Sprintf("%v passed as a pointer: Marshal/Size differ from the value form (%d bytes, size %d vs %d bytes, size %d; err %v)", fc.Type, len(pbs), codec.Size(pf), len(bs), size, perr), c, nil)
	}
	if !wf {
		return
	}
	key := "codec." + fc.Type.String()
	if ref, ok := wiregen.RefEncode(fc); !ok || !bytes.Equal(ref, bs) {
		r.Fail(key+".layout", fmt.Sprintf("Marshal(%v) differs from the 9P2000 manual's layout", fc.Type), c,
			map[string]interface{}{"want": fmt.Sprintf("%.400x", ref), "got": fmt.Sprintf("%.400x", bs)})
	}
	if size != len(bs) {
		r.Fail(key+".size", fmt.Sprintf("Size(%v) = %d but Marshal produced %d bytes", fc.Type, size, len(bs)), c, nil)
	}
	if derr != nil {
		r.Fail(key+".roundtrip", fmt.Sprintf("Unmarshal(Marshal(%v)) failed: %v", fc.Type, derr), c, nil)
	} else if sx.String(wiregen.FcallSexp(&back)) != sx.String(wiregen.FcallSexp(fc)) {
		r.Fail(key+".roundtrip", fmt.Sprintf("Unmarshal(Marshal(%v)) is a different message", fc.Type), c,
			map[string]interface{}{"decoded": sx.String(wiregen.FcallSexp(&back))})
	}
}
