// C14 harness: concurrent operations on one p9p.SFileSys session over a GATED,
// scripted FileSys.
//
// Every operation runs in its own goroutine.  Every call the session makes into
// the FileSys (fs.Auth, fs.Attach, Dirent.Walk/Open/OpenDir/Create/Remove/
// Clunk/Stat/WStat, File.Read/Write) parks on a gate that only the schedule
// opens, so an operation can be held inside a call - hence holding its fid's
// lock - while others start.  The schedule is generated on line from ONE PRNG
// seed: "start a new operation" or "let operation t's pending call return".
// After each event the harness waits until the session is at rest and records,
// per operation: returned (class, value, the FileSys calls it made) | parked in
// a call | blocked on a mutex | not started.
//
// "At rest" is decided without a short time-out: an operation is at rest when
// it has returned, is parked on its gate, or its goroutine is reported by the
// Go runtime in wait state sync.Mutex.Lock while every other operation is at
// rest too (only a running goroutine could release it).  The wait for rest
// itself is generous (minutes), so a loaded machine cannot produce an alarm.
//
// Direct oracles (from the property text, on the implementation alone):
//   - progress: once every gate has been opened every operation has returned;
//   - no fid is left locked whenever no operation is in flight (VerifFidTable);
//   - the FileSys never sees two overlapping calls on the entry/open file of one fid;
//   - the results (return class/value and the FileSys calls made, with the
//     identities of the entries they were made on) are those of the SAME
//     operations run one at a time, in some order consistent with real time,
//     on a fresh session (the implementation is its own sequential reference);
//   - with -race builds: the race detector stays silent.
//
// The cases run in child processes with a hard time-out, so that a wedged
// process is an observation, not a hang of the check.
package main

import (
	"bufio"
	"bytes"
	"context"
	"encoding/json"
	"errors"
	"fmt"
	"os"
	"os/exec"
	"runtime"
	"sort"
	"strconv"
	"strings"
	"sync"
	"sync/atomic"
	"time"

	p9p "github.com/frobnitzem/go-p9p"

	"verifharness/internal/prng"
	"verifharness/internal/rep"
	"verifharness/internal/sx"
)

const nofid = 4294967295

// ---------------------------------------------------------------- operations

type outcome struct {
	ok  bool
	n   int
	dir bool
}

type opDesc struct {
	kind       string
	a, b, c, d int64
	script     []outcome
}

func (o opDesc) sexp() sx.S {
	sc := make([]sx.S, len(o.script))
	for i, x := range o.script {
		if x.ok {
			sc[i] = sx.L(sx.I(int64(x.n)), sx.Bool(x.dir))
		} else {
			sc[i] = sx.I(0)
		}
	}
	return sx.L(sx.Sym(o.kind), sx.I(o.a), sx.I(o.b), sx.I(o.c), sx.I(o.d), sx.List(sc))
}

// newFid: the fid the operation allocates, or -1.
func (o opDesc) newFid() int64 {
	switch o.kind {
	case "attach", "auth":
		return o.a
	case "walk":
		if o.a != o.b {
			return o.b
		}
	}
	return -1
}

const (
	stNew int32 = iota
	stRunning
	stParked
	stDone
)

type thr struct {
	id       int
	op       opDesc
	ncalls   int
	calls    [][2]int
	gid      string
	gidReady chan struct{}
	state    atomic.Int32
	parkKind int
	parkObj  int
	gate     chan struct{}
	open     bool // gates pre-opened (sequential replay)
	cls, val int
	panicText string
	cr       *caseRun
}

type thrKey struct{}

// ---------------------------------------------------------------- gated FileSys

type group struct {
	busy atomic.Int32
	last atomic.Int32
}

type caseRun struct {
	reqauth   bool
	noMonitor bool // no overlap monitor: the FileSys touches no memory shared between operations
	stress    bool // free-running: calls made without an operation context (Stop) get a throw-away one
	gidMu     sync.Mutex
	byGid     map[string]*thr // Stop calls the FileSys with CancelledCtxt: its operation is found by goroutine
	mu       sync.Mutex
	overlaps []string
}

func (c *caseRun) newGroup() *group {
	if c.noMonitor {
		return nil
	}
	return &group{}
}

func (c *caseRun) overlap(kind int, other int32, obj int) {
	c.mu.Lock()
	a, b := kind, int(other)
	if a > b {
		a, b = b, a
	}
	c.overlaps = append(c.overlaps, fmt.Sprintf("%s/%s", kindName(a), kindName(b)))
	c.mu.Unlock()
}

var kindNames = []string{"qid", "fs.Auth", "fs.Attach", "Walk", "Open", "OpenDir", "Create", "Remove", "Clunk", "Stat", "WStat", "File.Read", "File.Write"}

func kindName(k int) string {
	if k >= 0 && k < len(kindNames) {
		return kindNames[k]
	}
	return strconv.Itoa(k)
}

func (g *group) enter(c *caseRun, kind, obj int) {
	if g == nil {
		return
	}
	if g.busy.Add(1) != 1 {
		c.overlap(kind, g.last.Load(), obj)
	}
	g.last.Store(int32(kind))
}

func (g *group) exit() {
	if g != nil {
		g.busy.Add(-1)
	}
}

var errFS = errors.New("fs-error")

// fsCall: a gated call of the given kind on the object obj (whose overlap group is g).
func fsCall(c *caseRun, ctx context.Context, kind int, g *group, obj int) (outcome, int, *thr) {
	t, _ := ctx.Value(thrKey{}).(*thr)
	if t == nil && c.stress {
		t = &thr{cr: c, open: true}
	}
	if t == nil {
		c.gidMu.Lock()
		t = c.byGid[goid()]
		c.gidMu.Unlock()
	}
	if t == nil {
		panic("FileSys call without an operation context")
	}
	g.enter(t.cr, kind, obj)
	t.ncalls++
	t.calls = append(t.calls, [2]int{kind, obj})
	if !t.open {
		t.parkKind, t.parkObj = kind, obj
		t.state.Store(stParked)
		<-t.gate
		t.state.Store(stRunning)
	}
	var o outcome
	if t.ncalls-1 < len(t.op.script) {
		o = t.op.script[t.ncalls-1]
	}
	g.exit()
	return o, 8*t.id + t.ncalls, t
}

type gfs struct{ c *caseRun }

func (f *gfs) RequireAuth(ctx context.Context) bool { return f.c.reqauth }

func (f *gfs) Auth(ctx context.Context, uname, aname string) (p9p.AuthFile, error) {
	o, id, t := fsCall(f.c, ctx, 1, nil, 0)
	if !o.ok {
		return nil, errFS
	}
	return &gauth{gfile{c: t.cr, id: id, grp: t.cr.newGroup()}, o.dir}, nil
}

func (f *gfs) Attach(ctx context.Context, uname, aname string, af p9p.AuthFile) (p9p.Dirent, error) {
	o, id, t := fsCall(f.c, ctx, 2, nil, 0)
	if !o.ok {
		return nil, errFS
	}
	return &gent{c: t.cr, id: id, dir: o.dir, grp: t.cr.newGroup()}, nil
}

type gent struct {
	c   *caseRun
	id  int
	dir bool
	grp *group
}

func (e *gent) touch() { e.grp.enter(e.c, 0, e.id); e.grp.exit() }

func (e *gent) Qid() p9p.Qid {
	e.touch()
	q := p9p.Qid{Path: uint64(e.id)}
	if e.dir {
		q.Type = p9p.QTDIR
	}
	return q
}

func (e *gent) OpenDir(ctx context.Context) (p9p.ReadNext, error) {
	o, _, _ := fsCall(e.c, ctx, 5, e.grp, e.id)
	if !o.ok {
		return nil, errFS
	}
	return func(context.Context) ([]p9p.Dir, error) { return nil, nil }, nil
}

func (e *gent) Walk(ctx context.Context, names ...string) ([]p9p.Qid, p9p.Dirent, error) {
	o, id, t := fsCall(e.c, ctx, 3, e.grp, e.id)
	if !o.ok {
		return nil, nil, errFS
	}
	n := o.n
	if n > len(names) {
		n = len(names)
	}
	return make([]p9p.Qid, n), &gent{c: t.cr, id: id, dir: o.dir, grp: t.cr.newGroup()}, nil
}

func (e *gent) Create(ctx context.Context, name string, perm uint32, mode p9p.Flag) (p9p.Dirent, p9p.File, error) {
	o, id, t := fsCall(e.c, ctx, 6, e.grp, e.id)
	if !o.ok {
		return nil, nil, errFS
	}
	ne := &gent{c: t.cr, id: id, dir: o.dir, grp: t.cr.newGroup()}
	return ne, &gfile{c: t.cr, id: id, grp: ne.grp}, nil
}

func (e *gent) Open(ctx context.Context, mode p9p.Flag) (p9p.File, error) {
	o, id, t := fsCall(e.c, ctx, 4, e.grp, e.id)
	if !o.ok {
		return nil, errFS
	}
	return &gfile{c: t.cr, id: id, grp: e.grp}, nil
}

func simple(ctx context.Context, kind int, e *gent) error {
	o, _, _ := fsCall(e.c, ctx, kind, e.grp, e.id)
	if !o.ok {
		return errFS
	}
	return nil
}

func (e *gent) Remove(ctx context.Context) error { return simple(ctx, 7, e) }
func (e *gent) Clunk(ctx context.Context) error  { return simple(ctx, 8, e) }
func (e *gent) Stat(ctx context.Context) (p9p.Dir, error) {
	return p9p.Dir{}, simple(ctx, 9, e)
}
func (e *gent) WStat(ctx context.Context, d p9p.Dir) error { return simple(ctx, 10, e) }

type gfile struct {
	c   *caseRun
	id  int
	grp *group
}

func (f *gfile) rw(ctx context.Context, kind int) (int, error) {
	o, _, _ := fsCall(f.c, ctx, kind, f.grp, f.id)
	if !o.ok {
		return 0, errFS
	}
	return o.n, nil
}
func (f *gfile) Read(ctx context.Context, p []byte, off int64) (int, error)  { return f.rw(ctx, 11) }
func (f *gfile) Write(ctx context.Context, p []byte, off int64) (int, error) { return f.rw(ctx, 12) }
func (f *gfile) IOUnit() int                                                 { f.grp.enter(f.c, 0, f.id); f.grp.exit(); return 0 }

type gauth struct {
	gfile
	success bool
}

func (a *gauth) Close(ctx context.Context) error { return nil }
func (a *gauth) Success() bool                   { a.grp.enter(a.c, 0, a.id); a.grp.exit(); return a.success }

// ---------------------------------------------------------------- running operations

var classes = []struct {
	text string
	cls  int
}{
	{"unknown fid", 1}, {"duplicate fid", 2}, {"permission denied", 3}, {"no auth", 4}, {"Non-normalized path", 5},
	{"not a directory", 6}, {"no file open", 7}, {"read prohibited", 8}, {"write prohibited", 9}, {"already open", 10},
	{"illegal filename", 11}, {"create in non-directory", 12}, {"fs-error", 13}, {"invalid", 14},
}

func classify(err error) int {
	if err == nil {
		return 0
	}
	s := err.Error()
	for _, c := range classes {
		if strings.Contains(s, c.text) {
			return c.cls
		}
	}
	return 99
}

func execOp(ctx context.Context, sess p9p.Session, o opDesc) (cls, val int) {
	var err error
	switch o.kind {
	case "auth":
		_, err = sess.Auth(ctx, p9p.Fid(o.a), "u", "a")
	case "attach":
		_, err = sess.Attach(ctx, p9p.Fid(o.a), p9p.Fid(o.b), "u", "a")
	case "walk":
		var names []string
		if o.d == 0 {
			names = []string{"x", ".."}
		} else {
			for i := int64(0); i < o.c; i++ {
				names = append(names, "x")
			}
		}
		var q []p9p.Qid
		q, err = sess.Walk(ctx, p9p.Fid(o.a), p9p.Fid(o.b), names...)
		val = len(q)
	case "open":
		_, _, err = sess.Open(ctx, p9p.Fid(o.a), p9p.Flag(o.b))
	case "create":
		name := "new"
		if o.b != 0 {
			name = ".."
		}
		_, _, err = sess.Create(ctx, p9p.Fid(o.a), name, 0o644, p9p.Flag(o.c))
	case "read":
		val, err = sess.Read(ctx, p9p.Fid(o.a), []byte{}, 0)
	case "write":
		val, err = sess.Write(ctx, p9p.Fid(o.a), []byte{}, 0)
	case "stat":
		_, err = sess.Stat(ctx, p9p.Fid(o.a))
	case "wstat":
		err = sess.WStat(ctx, p9p.Fid(o.a), p9p.Dir{})
	case "clunk":
		err = sess.Clunk(ctx, p9p.Fid(o.a))
	case "remove":
		err = sess.Remove(ctx, p9p.Fid(o.a))
	case "stop":
		err = sess.Stop(nil)
	default:
		panic("unknown op " + o.kind)
	}
	return classify(err), val
}

func goid() string {
	var b [64]byte
	n := runtime.Stack(b[:], false)
	f := strings.Fields(string(b[:n]))
	if len(f) >= 2 {
		return f[1]
	}
	return "?"
}

func start(sess p9p.Session, t *thr) {
	t.state.Store(stRunning)
	go func() {
		t.gid = goid()
		t.cr.gidMu.Lock()
		if t.cr.byGid == nil {
			t.cr.byGid = map[string]*thr{}
		}
		t.cr.byGid[t.gid] = t
		t.cr.gidMu.Unlock()
		close(t.gidReady)
		ctx := context.WithValue(context.Background(), thrKey{}, t)
		defer func() {
			// a Go panic inside a session method is an observation (class 15), not a crash of the harness
			if x := recover(); x != nil {
				t.cls, t.val = 15, 0
				t.panicText = fmt.Sprint(x)
				t.state.Store(stDone)
			}
		}()
		t.cls, t.val = execOp(ctx, sess, t.op)
		t.state.Store(stDone)
	}()
	<-t.gidReady
}

var dumpBuf = make([]byte, 1<<20)

// goroutine id -> wait state, from the runtime's own report
func goroutineStates() map[string]string {
	for {
		n := runtime.Stack(dumpBuf, true)
		if n < len(dumpBuf) {
			m := map[string]string{}
			for _, blk := range bytes.Split(dumpBuf[:n], []byte("\n\n")) {
				if !bytes.HasPrefix(blk, []byte("goroutine ")) {
					continue
				}
				line := blk
				if i := bytes.IndexByte(blk, '\n'); i >= 0 {
					line = blk[:i]
				}
				f := strings.SplitN(string(line), " ", 3)
				if len(f) == 3 {
					m[f[1]] = strings.Trim(f[2], "[]:")
				}
			}
			return m
		}
		dumpBuf = make([]byte, 2*len(dumpBuf))
	}
}

const settleLimit = 5 * time.Minute
const spinLimit = 30 * time.Second

// settle waits until every started operation is at rest; returns per thread: 'd', 'p' or 'b'.
func settle(ths []*thr) []byte {
	res := make([]byte, len(ths))
	began := time.Now()
	deadline := time.Now().Add(settleLimit)
	sleep := 5 * time.Microsecond
	confirmed := 0
	for {
		stable := true
		var need []int
		for i, t := range ths {
			switch t.state.Load() {
			case stDone:
				res[i] = 'd'
			case stParked:
				res[i] = 'p'
			case stNew:
				res[i] = 'n'
			default:
				need = append(need, i)
			}
		}
		if len(need) > 0 {
			runtime.Gosched()
			gs := goroutineStates()
			for _, i := range need {
				if strings.HasPrefix(gs[ths[i].gid], "sync.Mutex.Lock") {
					res[i] = 'b'
				} else {
					stable = false
				}
			}
			// the states read before the dump must not have moved (done/parked are final until we act)
			for i, t := range ths {
				if res[i] == 'b' && t.state.Load() != stRunning {
					stable = false
				}
			}
		}
		if stable {
			confirmed++
			if confirmed >= 2 || len(need) == 0 {
				return res
			}
			continue
		}
		confirmed = 0
		if time.Since(began) > spinLimit {
			// not returned, not inside a FileSys call, not waiting for a mutex, for half a minute of polling
			// (the work between two rest points takes microseconds): the operation keeps RUNNING - a busy-wait
			// or livelock.  Reported as its own status; the model has no such state.
			for _, i := range need {
				if res[i] != 'b' {
					res[i] = 's'
				}
			}
			return res
		}
		if time.Now().After(deadline) {
			fmt.Fprintln(os.Stderr, "c14 harness: the session did not come to rest within", settleLimit)
			os.Exit(3)
		}
		time.Sleep(sleep)
		if sleep < 2*time.Millisecond {
			sleep *= 2
		}
	}
}

func obsItems(ths []*thr, st []byte) []sx.S {
	out := make([]sx.S, 0, len(ths))
	for i, t := range ths {
		switch st[i] {
		case 'd':
			cs := make([]sx.S, len(t.calls))
			for j, c := range t.calls {
				cs[j] = sx.L(sx.I(int64(c[0])), sx.I(int64(c[1])))
			}
			out = append(out, sx.L(sx.Sym("d"), sx.I(int64(t.cls)), sx.I(int64(t.val)), sx.List(cs)))
		case 'p':
			out = append(out, sx.L(sx.Sym("p"), sx.I(int64(t.parkKind)), sx.I(int64(t.parkObj))))
		case 'b':
			out = append(out, sx.Sym("b"))
		case 's':
			out = append(out, sx.Sym("s"))
		default:
			out = append(out, sx.Sym("n"))
		}
	}
	return out
}

// ---------------------------------------------------------------- case generation (on line)


func genScript(rng *prng.R, errp int) []outcome {
	sc := make([]outcome, 3)
	for i := range sc {
		if rng.Chance(errp, 100) {
			continue
		}
		sc[i] = outcome{ok: true, n: rng.Intn(4), dir: rng.Chance(1, 2)}
	}
	return sc
}

func pickStr(rng *prng.R, xs ...string) string { return xs[rng.Intn(len(xs))] }

var focusFid int64 = -1

// fids currently in the session's table (locked ones twice): where the contention is
var hotFids []int64

// a case with Stop keeps to three fids: the model tries every order in which Range may visit the table
var stopCase bool // (kept small: the model tries every callback order of Range)

func pickFid(rng *prng.R) int64 {
	if stopCase {
		if rng.Chance(1, 25) {
			return nofid
		}
		return int64(rng.Intn(3))
	}
	if focusFid >= 0 && rng.Chance(7, 10) {
		return focusFid
	}
	if len(hotFids) > 0 && rng.Chance(1, 2) {
		return hotFids[rng.Intn(len(hotFids))]
	}
	switch x := rng.Intn(40); {
	case x == 0:
		return nofid
	case x == 1:
		return 7
	case x < 14:
		return 0
	case x < 27:
		return 1
	case x < 35:
		return 2
	}
	return 3
}

func genOp(rng *prng.R, errp int) opDesc {
	o := opDesc{script: genScript(rng, errp)}
	modes := []int64{0, 1, 2, 3, 17}
	switch rng.Intn(16) {
	case 0:
		o.kind, o.a = "auth", pickFid(rng)
	case 1, 2:
		o.kind, o.a, o.b = "attach", pickFid(rng), nofid
		if rng.Chance(1, 2) {
			o.b = pickFid(rng)
		}
	case 3, 4, 5, 6:
		o.kind, o.a, o.b, o.c, o.d = "walk", pickFid(rng), pickFid(rng), int64(rng.Intn(3)), 1
		if rng.Chance(1, 12) {
			o.c, o.d = 2, 0
		}
	case 7:
		o.kind, o.a, o.b = "open", pickFid(rng), modes[rng.Intn(len(modes))]
	case 8, 9:
		o.kind, o.a, o.c = "create", pickFid(rng), modes[rng.Intn(len(modes))]
		if rng.Chance(1, 12) {
			o.b = 1
		}
	case 10:
		o.kind, o.a = "read", pickFid(rng)
	case 11:
		o.kind, o.a = "write", pickFid(rng)
	case 12:
		o.kind, o.a = "stat", pickFid(rng)
	case 13:
		o.kind, o.a = "wstat", pickFid(rng)
	case 14:
		o.kind, o.a = "clunk", pickFid(rng)
	default:
		o.kind, o.a = "remove", pickFid(rng)
	}
	return o
}

// setup operations: biased towards building a populated fid table
func genSetup(rng *prng.R, i int) opDesc {
	ok := func(dir bool) outcome { return outcome{ok: true, n: 3, dir: dir} }
	switch i {
	case 0:
		return opDesc{kind: "attach", a: 0, b: nofid, script: []outcome{ok(true)}}
	case 1:
		return opDesc{kind: "walk", a: 0, b: 1, c: int64(rng.Intn(2)), d: 1, script: []outcome{ok(rng.Chance(1, 2))}}
	case 2:
		if rng.Chance(1, 2) {
			return opDesc{kind: "open", a: 1, b: int64(rng.Intn(3)), script: []outcome{ok(false)}}
		}
		return opDesc{kind: "walk", a: 0, b: 2, c: 1, d: 1, script: []outcome{ok(rng.Chance(1, 2))}}
	default:
		o := genOp(rng, 10)
		return o
	}
}

type event struct {
	start bool
	t     int
	obs   []byte
	items []sx.S
}

// ---------------------------------------------------------------- free-running stress (no gates, no harness synchronisation between operations)

// stress: G goroutines issue random operations on one session as fast as they can; the FileSys answers
// from the scripts without parking.  Each goroutine allocates new fids only from its own range (the client
// does not allocate one new fid from two requests at once) but uses every fid.  Oracles: overlap monitor,
// every goroutine finishes (generous watchdog), no fid locked afterwards; under -race the race detector
// sees the session's accesses without any ordering imposed by the harness.
func stress(rng *prng.R, monitor bool) (ops int, fails []failRec) {
	const G = 6
	const perG = 150
	cr := &caseRun{reqauth: rng.Chance(1, 4), noMonitor: !monitor, stress: true}
	sess := p9p.SFileSys(&gfs{cr})
	type plan struct{ ops []opDesc }
	plans := make([]plan, G)
	allFids := func(r *prng.R) int64 {
		if r.Chance(1, 30) {
			return nofid
		}
		return int64(r.Intn(G * 3))
	}
	for g := 0; g < G; g++ {
		r := rng.Fork()
		own := func() int64 { return int64(g*3 + r.Intn(3)) }
		for i := 0; i < perG; i++ {
			o := genOp(r, 15)
			o.a = allFids(r)
			switch o.kind {
			case "attach":
				o.a = own()
				if o.b != nofid {
					o.b = allFids(r)
				}
			case "auth":
				o.a = own()
			case "walk":
				if r.Chance(1, 5) {
					o.b = o.a
				} else {
					o.b = own()
				}
			}
			plans[g].ops = append(plans[g].ops, o)
		}
	}
	var wg sync.WaitGroup
	var panics atomic.Int32
	gids := make([]string, G+1) // [G]: the goroutine calling Stop
	finished := make([]atomic.Bool, G+1)
	var ready sync.WaitGroup
	ready.Add(G + 1)
	for g := 0; g < G; g++ {
		wg.Add(1)
		go func(g int) {
			defer wg.Done()
			defer finished[g].Store(true)
			gids[g] = goid()
			ready.Done()
			ready.Wait()
			for i, o := range plans[g].ops {
				t := &thr{id: g*perG + i, op: o, cr: cr, open: true}
				ctx := context.WithValue(context.Background(), thrKey{}, t)
				func() {
					defer func() {
						if x := recover(); x != nil {
							panics.Add(1)
						}
					}()
					execOp(ctx, sess, o)
				}()
			}
		}(g)
	}
	// the server's Stop, three times, while the operations run (it waits for whatever is in flight on each fid)
	wg.Add(1)
	go func() {
		defer wg.Done()
		defer finished[G].Store(true)
		gids[G] = goid()
		ready.Done()
		ready.Wait()
		for i := 0; i < 3; i++ {
			time.Sleep(time.Duration(200*(i+1)) * time.Microsecond)
			func() {
				defer func() {
					if x := recover(); x != nil {
						panics.Add(1)
					}
				}()
				sess.Stop(nil)
			}()
		}
	}()
	done := make(chan struct{})
	go func() { wg.Wait(); close(done) }()
	ready.Wait()
	deadline := time.Now().Add(settleLimit)
	lastAlive, lastChange := -1, time.Now()
	for waiting := true; waiting; {
		select {
		case <-done:
			waiting = false
		case <-time.After(100 * time.Millisecond):
			// a deadlock is seen positively: in one snapshot every goroutine that has not finished waits for a
			// mutex (the FileSys does not park anybody here, so nobody is left who could release one)
			gs := goroutineStates()
			stuck, alive := 0, 0
			for g := 0; g <= G; g++ {
				if !finished[g].Load() {
					alive++
					if strings.HasPrefix(gs[gids[g]], "sync.Mutex.Lock") {
						stuck++
					}
				}
			}
			if alive > 0 && stuck == alive {
				fails = append(fails, failRec{Key: "c14.stress-deadlock", What: fmt.Sprintf("free-running operations on one session (FileSys calls return at once): all %d unfinished goroutines wait for a mutex", alive)})
				return G * perG, fails
			}
			// nobody parks here and a goroutine's whole plan takes milliseconds: when for spinLimit no goroutine
			// has finished (and they are not all waiting for a mutex), somebody runs for ever
			if alive != lastAlive {
				lastAlive, lastChange = alive, time.Now()
			}
			if time.Since(lastChange) > spinLimit || time.Now().After(deadline) {
				who := "operations"
				if finished[G].Load() == false && alive == 1 {
					who = "Stop"
				}
				fails = append(fails, failRec{Key: "c14.stress-never-returns:" + who, What: fmt.Sprintf("free-running operations on one session (FileSys calls return at once): %d goroutine(s) (%s) still running and none has finished for %s", alive, who, spinLimit)})
				return G * perG, fails
			}
		}
	}
	if n := panics.Load(); n > 0 {
		fails = append(fails, failRec{Key: "c14.stress-panic", What: fmt.Sprintf("%d session methods panicked under free-running concurrency", n)})
	}
	_, tab := tableSexp(sess)
	for _, e := range tab {
		if e.Locked {
			fails = append(fails, failRec{Key: "c14.stress-fid-left-locked", What: fmt.Sprintf("fid %d is locked after all free-running operations returned", e.Fid)})
			break
		}
	}
	seen := map[string]bool{}
	for _, o := range cr.overlaps {
		if !seen[o] {
			seen[o] = true
			fails = append(fails, failRec{Key: "c14.stress-overlapping-fs-calls:" + o, What: "the FileSys saw two overlapping calls on the entry/open file of one fid under free-running concurrency: " + o})
		}
	}
	return G * perG, fails
}

type caseResult struct {
	Stress            bool
	StressOps         int
	Case, Obs, Branch string
	Nontrivial        bool
	Fails             []failRec
	OpClasses         []string
	LinReplays        int
	LinInconclusive   bool
}

type failRec struct {
	Key, What string
	Detail    map[string]interface{}
}

func tableSexp(sess p9p.Session) (sx.S, []p9p.VerifFid) {
	tab, _ := p9p.VerifFidTable(sess)
	sort.Slice(tab, func(i, j int) bool { return tab[i].Fid < tab[j].Fid })
	rows := make([]sx.S, len(tab))
	for i, e := range tab {
		rows[i] = sx.L(sx.I(int64(e.Fid)), sx.Bool(e.Bound), sx.Bool(e.Open), sx.I(int64(e.Mode)), sx.Bool(e.Locked))
	}
	return sx.List(rows), tab
}

func runCase(rng *prng.R) caseResult {
	cr := &caseRun{reqauth: rng.Chance(1, 4)}
	sess := p9p.SFileSys(&gfs{cr})
	stopCase = rng.Chance(1, 5)
	defer func() { stopCase = false }()
	stopAt := -1 // which of the concurrent operations is the server's Stop
	var ths []*thr
	var events []event
	var fails []failRec
	fail := func(key, what string) {
		fails = append(fails, failRec{Key: key, What: what})
	}
	newThr := func(o opDesc) *thr {
		t := &thr{id: len(ths), op: o, gate: make(chan struct{}), gidReady: make(chan struct{}), cr: cr}
		ths = append(ths, t)
		return t
	}
	lockedSeen := false
	checkIdle := func(st []byte, when string) {
		for _, c := range st {
			if c != 'd' {
				return
			}
		}
		_, tab := tableSexp(sess)
		for _, e := range tab {
			if e.Locked && !lockedSeen {
				lockedSeen = true
				// name the operations that returned in this step
				var ks []string
				var prev []byte
				if len(events) > 0 {
					prev = events[len(events)-1].obs
				}
				for i, t := range ths {
					if i >= len(prev) || prev[i] != 'd' {
						ks = append(ks, t.op.kind)
					}
				}
				sort.Strings(ks)
				fail("c14.fid-left-locked:after-"+strings.Join(ks, "+"), fmt.Sprintf("fid %d is locked while no operation is in flight (%s)", e.Fid, when))
			}
		}
	}
	spun := false
	// an operation found spinning: say so, then open every gate until all have returned, so that it stops
	noteSpin := func(st []byte) {
		for i, c := range st {
			if c == 's' && !spun {
				spun = true
				fail("c14.busy-wait:"+ths[i].op.kind, fmt.Sprintf("op %d (%s) neither returns nor waits for a mutex nor is inside a FileSys call: it keeps running while every other operation is at rest (the lock protocol blocks on the SFid's mutex here)", i, ths[i].op.kind))
			}
		}
		if !spun {
			return
		}
		limit := time.Now().Add(time.Minute)
		for time.Now().Before(limit) {
			all := true
			for _, t := range ths {
				switch t.state.Load() {
				case stParked:
					t.state.Store(stRunning)
					t.gate <- struct{}{}
					all = false
				case stDone:
				default:
					all = false
				}
			}
			if all {
				return
			}
			time.Sleep(time.Millisecond)
		}
	}
	doStart := func(o opDesc) {
		t := newThr(o)
		start(sess, t)
		st := settle(ths)
		checkIdle(st, "after starting op "+strconv.Itoa(t.id))
		events = append(events, event{start: true, t: t.id, obs: st, items: obsItems(ths, st)})
		noteSpin(st)
	}
	doRelease := func(t *thr) {
		t.state.Store(stRunning)
		t.gate <- struct{}{}
		st := settle(ths)
		checkIdle(st, "after releasing op "+strconv.Itoa(t.id))
		events = append(events, event{start: false, t: t.id, obs: st, items: obsItems(ths, st)})
		noteSpin(st)
	}
	parked := func() []*thr {
		var p []*thr
		for _, t := range ths {
			if t.state.Load() == stParked {
				p = append(p, t)
			}
		}
		return p
	}
	// sequential prefix
	nsetup := rng.Intn(2)
	if rng.Chance(9, 10) {
		nsetup = rng.Range(2, 5)
	}
	for i := 0; i < nsetup; i++ {
		doStart(genSetup(rng, i))
		for !spun {
			p := parked()
			if len(p) == 0 {
				break
			}
			doRelease(p[0])
		}
	}
	// concurrent part
	nconc := rng.Range(2, 6)
	if stopCase {
		stopAt = rng.Intn(nconc)
	}
	focusFid = -1
	if rng.Chance(1, 2) {
		focusFid = int64(rng.Intn(3))
	}
	defer func() { focusFid = -1; hotFids = nil }()
	errp := rng.Pick(5, 20, 40)
	startedConc := 0
	// one case in six is a directed race on one fid (the rest of the schedule stays random)
	var scenario []opDesc
	if nsetup >= 2 && !stopCase && rng.Chance(1, 6) {
		okd := outcome{ok: true, n: 3, dir: true}
		bad := outcome{}
		switch rng.Intn(3) {
		case 0: // a Create whose OpenDir fails, racing clunk/remove and a re-allocation of the fid
			scenario = []opDesc{
				{kind: "create", a: 1, c: 0, script: []outcome{okd, bad, okd}},
				{kind: pickStr(rng, "clunk", "remove"), a: 1, script: genScript(rng, errp)},
				{kind: "attach", a: 1, b: nofid, script: genScript(rng, 10)},
				{kind: "stat", a: 1, script: genScript(rng, errp)},
			}
		case 1: // a failing allocation racing clunk and use of the new fid
			scenario = []opDesc{
				{kind: "walk", a: 0, b: 3, c: int64(rng.Intn(2)), d: 1, script: []outcome{bad, bad, bad}},
				{kind: pickStr(rng, "clunk", "remove"), a: 3, script: genScript(rng, errp)},
				{kind: "stat", a: 3, script: genScript(rng, errp)},
				{kind: "clunk", a: 0, script: genScript(rng, errp)},
			}
		default: // in-place walk racing clunk and clone
			scenario = []opDesc{
				{kind: "walk", a: 1, b: 1, c: 1, d: 1, script: genScript(rng, errp)},
				{kind: "clunk", a: 1, script: genScript(rng, errp)},
				{kind: "walk", a: 1, b: 2, c: 0, d: 1, script: genScript(rng, errp)},
				{kind: "walk", a: 0, b: 1, c: 1, d: 1, script: genScript(rng, 10)},
			}
		}
		for i := len(scenario) - 1; i > 0; i-- {
			j := rng.Intn(i + 1)
			scenario[i], scenario[j] = scenario[j], scenario[i]
		}
		if nconc < len(scenario) {
			nconc = len(scenario)
		}
	}
	maxInFlight, sawBlocked := 0, false
	for steps := 0; steps < 200 && !spun; steps++ {
		p := parked()
		canStart := startedConc < nconc
		if !canStart && len(p) == 0 {
			break
		}
		if canStart && (len(p) == 0 || rng.Chance(7, 10)) {
			// the client does not allocate one new fid from two requests at once
			pending := map[int64]bool{}
			for _, t := range ths {
				if t.state.Load() != stDone {
					if f := t.op.newFid(); f >= 0 {
						pending[f] = true
					}
				}
			}
			hotFids = hotFids[:0]
			if tab, ok := p9p.VerifFidTable(sess); ok { // TryLock only: safe while operations are parked
				for _, e := range tab {
					hotFids = append(hotFids, int64(e.Fid))
					if e.Locked {
						hotFids = append(hotFids, int64(e.Fid))
					}
				}
				sort.Slice(hotFids, func(i, j int) bool { return hotFids[i] < hotFids[j] })
			}
			var o opDesc
			for try := 0; ; try++ {
				o = genOp(rng, errp)
				if startedConc < len(scenario) && try == 0 {
					o = scenario[startedConc]
				}
				if startedConc == stopAt {
					o = opDesc{kind: "stop", script: genScript(rng, errp)}
				}
				if f := o.newFid(); f < 0 || !pending[f] {
					break
				}
				if try > 20 {
					o = opDesc{kind: "stat", a: pickFid(rng), script: genScript(rng, errp)}
					break
				}
			}
			doStart(o)
			startedConc++
		} else {
			doRelease(p[rng.Intn(len(p))])
		}
		st := events[len(events)-1].obs
		inflight := 0
		for _, c := range st {
			if c == 'p' || c == 'b' {
				inflight++
			}
			if c == 'b' {
				sawBlocked = true
			}
		}
		if inflight > maxInFlight {
			maxInFlight = inflight
		}
	}
	final := events[len(events)-1].obs
	tabS, tab := tableSexp(sess)

	// ---- the case and what was observed
	ops := make([]sx.S, len(ths))
	for i, t := range ths {
		ops[i] = t.op.sexp()
	}
	evs := make([]sx.S, len(events))
	for i, e := range events {
		k := "r"
		if e.start {
			k = "s"
		}
		// pad the observation to the final number of operations
		items := append([]sx.S{}, e.items...)
		for len(items) < len(ths) {
			items = append(items, sx.Sym("n"))
		}
		evs[i] = sx.L(sx.L(sx.Sym(k), sx.I(int64(e.t))), sx.List(items))
	}
	c := sx.L(sx.Sym("c14"), sx.Bool(cr.reqauth), sx.List(ops), sx.List(evs), tabS)
	res := caseResult{Case: sx.String(c), Obs: "ok"}

	// ---- direct oracles
	hist := func() string {
		var b strings.Builder
		for i, t := range ths {
			fmt.Fprintf(&b, "op%d=%s(%d,%d,%d,%d)->", i, t.op.kind, t.op.a, t.op.b, t.op.c, t.op.d)
			if final[i] == 'd' {
				fmt.Fprintf(&b, "class%d/%d ", t.cls, t.val)
			} else {
				fmt.Fprintf(&b, "NEVER-RETURNED ")
			}
		}
		return b.String()
	}
	allDone := true
	if spun {
		allDone = false
		res.Obs = "(spin)"
	}
	for i, t := range ths {
		if spun {
			break
		}
		if final[i] != 'd' {
			allDone = false
			fail("c14.never-returns:"+t.op.kind, fmt.Sprintf("every FileSys call has returned, yet op %d (%s) is blocked on a mutex for ever; history: %s", i, t.op.kind, hist()))
		}
	}
	if !allDone && !spun {
		res.Obs = "(pending)"
		for _, e := range tab {
			if e.Locked {
				fail("c14.fid-locked-at-quiescence", fmt.Sprintf("fid %d locked at quiescence; history: %s", e.Fid, hist()))
				break
			}
		}
	}
	cr.mu.Lock()
	seen := map[string]bool{}
	for _, o := range cr.overlaps {
		if !seen[o] {
			seen[o] = true
			fail("c14.overlapping-fs-calls:"+o, "the FileSys saw two overlapping calls on the entry/open file of one fid: "+o+"; history: "+hist())
		}
	}
	cr.mu.Unlock()
	for _, t := range ths {
		if t.cls == 15 {
			fail("c14.panic:"+t.op.kind, "a session method panicked: "+t.panicText+"; history: "+hist())
		}
		if t.cls == 99 {
			fail("c14.harness:unclassified-error", "unexpected error text from op "+t.op.kind)
		}
	}
	if allDone && stopAt < 0 {
		ok, replays, inconclusive := linearizable(cr.reqauth, ths, events)
		res.LinReplays, res.LinInconclusive = replays, inconclusive
		if !ok && !inconclusive {
			kinds := map[string]bool{}
			for _, t := range ths[nsetup:] {
				kinds[t.op.kind] = true
			}
			var ks []string
			for k := range kinds {
				ks = append(ks, k)
			}
			sort.Strings(ks)
			res.Obs = "(nonlin)"
			fail("c14.not-linearizable:"+strings.Join(ks, "+"), "no sequential order consistent with real time reproduces the results; history: "+hist())
		}
	}
	for _, t := range ths {
		if t.state.Load() == stDone {
			res.OpClasses = append(res.OpClasses, fmt.Sprintf("%s:%d", t.op.kind, t.cls))
		}
	}
	res.Fails = fails
	res.Nontrivial = maxInFlight >= 2 || sawBlocked
	res.Branch = fmt.Sprintf("inflight=%d,blocked=%v", maxInFlight, sawBlocked)
	if stopAt >= 0 {
		res.Branch += ",stop"
	}
	return res
}

// ---------------------------------------------------------------- linearizability against the implementation run sequentially

type hrec struct {
	t        *thr
	inv, ret int
}

func linearizable(reqauth bool, ths []*thr, events []event) (ok bool, replays int, inconclusive bool) {
	h := make([]hrec, len(ths))
	for i, t := range ths {
		h[i] = hrec{t: t, inv: -1, ret: -1}
	}
	for j, e := range events {
		if e.start {
			h[e.t].inv = j
		}
		for i, c := range e.obs {
			if c == 'd' && h[i].ret < 0 {
				h[i].ret = j
			}
		}
	}
	n := len(h)
	used := make([]bool, n)
	order := make([]int, 0, n)
	const budget = 4000
	// replay the prefix `order` on a fresh session; true iff every op reproduces its observed result
	replay := func() bool {
		replays++
		cr := &caseRun{reqauth: reqauth}
		sess := p9p.SFileSys(&gfs{cr})
		for _, i := range order {
			o := h[i].t
			t := &thr{id: o.id, op: o.op, gidReady: make(chan struct{}), cr: cr, open: true}
			start(sess, t)
			st := settle([]*thr{t})
			if st[0] != 'd' || t.cls != o.cls || t.val != o.val || len(t.calls) != len(o.calls) {
				return false
			}
			for k := range t.calls {
				if t.calls[k] != o.calls[k] {
					return false
				}
			}
		}
		return true
	}
	var dfs func() bool
	dfs = func() bool {
		if len(order) == n {
			return true
		}
		for i := 0; i < n; i++ {
			if used[i] {
				continue
			}
			// i may come next only if no unplaced op had returned before i was invoked
			okNext := true
			for j := 0; j < n; j++ {
				if !used[j] && j != i && h[j].ret < h[i].inv {
					okNext = false
					break
				}
			}
			if !okNext {
				continue
			}
			if replays >= budget {
				inconclusive = true
				return false
			}
			used[i] = true
			order = append(order, i)
			if replay() && dfs() {
				return true
			}
			order = order[:len(order)-1]
			used[i] = false
		}
		return false
	}
	ok = dfs()
	return
}

// ---------------------------------------------------------------- parent / child

func childMain(seed uint64, batch, count int) {
	rng := prng.New(seed*1000003 + uint64(batch)*7919 + 17)
	w := bufio.NewWriter(os.Stdout)
	enc := json.NewEncoder(w)
	for i := 0; i < count; i++ {
		fmt.Fprintf(os.Stderr, "@@case %d of batch %d (seed %d)\n", i, batch, seed)
		res := runCase(rng.Fork())
		enc.Encode(res)
		w.Flush()
	}
	for i := 0; i < 2+count/25; i++ {
		fmt.Fprintf(os.Stderr, "@@case stress %d of batch %d (seed %d)\n", i, batch, seed)
		// odd rounds run without the overlap monitor, whose atomic counters would order the session's
		// memory accesses and hide data races from the race detector
		n, fails := stress(rng.Fork(), i%2 == 0)
		enc.Encode(caseResult{Stress: true, StressOps: n, Fails: fails})
		w.Flush()
		stuck := false
		for _, f := range fails {
			if strings.HasPrefix(f.Key, "c14.stress-never-returns") || f.Key == "c14.stress-deadlock" {
				stuck = true
			}
		}
		if stuck {
			break // goroutines were left behind (spinning or blocked): further rounds in this process would only be slowed by them
		}
	}
}

func main() {
	if len(os.Args) > 1 && os.Args[1] == "-child" {
		seed, _ := strconv.ParseUint(os.Args[2], 10, 64)
		batch, _ := strconv.Atoi(os.Args[3])
		count, _ := strconv.Atoi(os.Args[4])
		childMain(seed, batch, count)
		return
	}
	// extra flag: -n overrides the case count
	nOverride := 0
	args := os.Args[1:]
	for i := 0; i+1 < len(args); i++ {
		if args[i] == "-n" {
			nOverride, _ = strconv.Atoi(args[i+1])
			os.Args = append(append([]string{os.Args[0]}, args[:i]...), args[i+2:]...)
			break
		}
	}
	r := rep.Open()
	defer r.Close()
	r.Rule = "each case: a fresh p9p.SFileSys over a gated scripted FileSys; 0-4 sequential set-up operations (attach/walk/open/...) then 2-6 operations on fids {0,1,2,3,7,NOFID} started and released by an on-line PRNG schedule (start next op | let a parked FileSys call return), FileSys outcomes scripted per call with 5/20/40% errors; the client never has two allocations of one new fid in flight. Non-trivial: at some rest point two or more operations were in flight or one was blocked on a mutex. Distinct by case text."
	total := r.N(400, 20000)
	if nOverride > 0 {
		total = nOverride
	}
	per := 50
	if total > 1000 {
		per = 500
	}
	nb := (total + per - 1) / per
	par := runtime.NumCPU()
	if par > 8 {
		par = 8
	}
	type batchOut struct {
		lines [][]byte
		err   string
		crash string
		races string
	}
	outs := make([]batchOut, nb)
	sem := make(chan struct{}, par)
	var wg sync.WaitGroup
	childLimit := 10 * time.Minute
	if r.Thorough() {
		childLimit = 40 * time.Minute
	}
	for b := 0; b < nb; b++ {
		cnt := per
		if b == nb-1 {
			cnt = total - per*(nb-1)
		}
		wg.Add(1)
		sem <- struct{}{}
		go func(b, cnt int) {
			defer wg.Done()
			defer func() { <-sem }()
			ctx, cancel := context.WithTimeout(context.Background(), childLimit)
			defer cancel()
			cmd := exec.CommandContext(ctx, os.Args[0], "-child", strconv.FormatUint(r.Seed, 10), strconv.Itoa(b), strconv.Itoa(cnt))
			cmd.Env = append(os.Environ(), "GORACE=halt_on_error=0 exitcode=0")
			var so, se bytes.Buffer
			cmd.Stdout, cmd.Stderr = &so, &se
			err := cmd.Run()
			o := batchOut{}
			for _, l := range bytes.Split(so.Bytes(), []byte("\n")) {
				if len(bytes.TrimSpace(l)) > 0 {
					o.lines = append(o.lines, l)
				}
			}
			if ctx.Err() != nil {
				o.err = fmt.Sprintf("child process for batch %d did not finish within %s (%d of %d cases done)", b, childLimit, len(o.lines), cnt)
			} else if err != nil {
				o.crash = crashLine(se.String())
				o.err = fmt.Sprintf("child process for batch %d died (%v) in %s: %s", b, err, lastCase(se.String()), tail(se.String(), 1500))
			}
			if strings.Contains(se.String(), "DATA RACE") {
				o.races = se.String()
			}
			outs[b] = o
		}(b, cnt)
	}
	wg.Wait()
	opcls := map[string]int{}
	replays, inconclusive := 0, 0
	stressOps := 0
	harnessErr := ""
	for b, o := range outs {
		for _, l := range o.lines {
			var cr caseResult
			if err := json.Unmarshal(l, &cr); err != nil {
				harnessErr = "bad child output: " + err.Error()
				continue
			}
			if cr.Stress {
				stressOps += cr.StressOps
				for _, f := range cr.Fails {
					r.Fail(f.Key, f.What, nil, f.Detail)
				}
				continue
			}
			c := sx.Sym(cr.Case)
			r.Case(c, sx.Sym(cr.Obs), cr.Branch, cr.Nontrivial)
			for _, f := range cr.Fails {
				r.Fail(f.Key, f.What, c, f.Detail)
			}
			for _, k := range cr.OpClasses {
				opcls[k]++
			}
			if cr.Nontrivial && len(r.Samples) < 3 {
				r.Samples = append(r.Samples, tail(cr.Case, 700)+" => "+cr.Obs)
			}
			replays += cr.LinReplays
			if cr.LinInconclusive {
				inconclusive++
			}
		}
		if o.races != "" {
			r.Fail("c14.data-race:"+raceKey(o.races), "the race detector reported a data race during concurrent session operations: "+tail(o.races, 3000), nil, map[string]interface{}{"batch": b})
		}
		if o.err != "" {
			if strings.Contains(o.err, "did not finish") {
				r.Fail("c14.process-wedged", o.err, nil, nil)
			} else if o.crash != "" {
				r.Fail("c14.process-crashed:"+o.crash, "concurrent session operations crashed the process: "+o.err, nil, nil)
			} else {
				harnessErr = o.err
			}
		}
	}
	if r.Samples == nil {
		r.Samples = []string{"(no non-trivial case in this run)"}
	}
	r.Extra["op_result_classes"] = opcls
	r.Extra["stress_free_running_ops"] = stressOps
	r.Extra["lin_oracle_sequential_replays"] = replays
	r.Extra["lin_oracle_inconclusive_cases"] = inconclusive
	if harnessErr != "" {
		fmt.Fprintln(os.Stderr, harnessErr)
		r.Close()
		os.Exit(3)
	}
}

// crashLine: the Go runtime's one-line reason ("fatal error: ..." / "panic: ..."), as a stable key
func crashLine(stderr string) string {
	for _, l := range strings.Split(stderr, "\n") {
		if strings.HasPrefix(l, "fatal error: ") || strings.HasPrefix(l, "panic: ") {
			l = strings.ReplaceAll(l, " ", "-")
			if len(l) > 80 {
				l = l[:80]
			}
			return l
		}
	}
	return ""
}

func lastCase(stderr string) string {
	last := "?"
	for _, l := range strings.Split(stderr, "\n") {
		if strings.HasPrefix(l, "@@case ") {
			last = l[2:]
		}
	}
	return last
}

func tail(s string, n int) string {
	if len(s) > n {
		return s[len(s)-n:]
	}
	return s
}

// raceKey: the first two function names of the first report (stable across runs)
func raceKey(s string) string {
	var fns []string
	for _, l := range strings.Split(s, "\n") {
		l = strings.TrimSpace(l)
		if strings.HasPrefix(l, "github.com/frobnitzem/go-p9p.") {
			f := strings.TrimPrefix(l, "github.com/frobnitzem/go-p9p.")
			if i := strings.Index(f, "("); i > 0 && !strings.HasPrefix(f, "(") {
				f = f[:i]
			}
			fns = append(fns, strings.TrimSuffix(f, "()"))
			if len(fns) == 2 {
				break
			}
		}
	}
	return strings.Join(fns, "/")
}
