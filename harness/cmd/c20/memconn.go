package main

import (
	"encoding/binary"
	"io"
	"net"
	"sync"
	"time"
)

// In-memory duplex connection with unbounded buffering in each direction (so
// that neither end can block the other by not reading), and a rewrite of the
// msize field of the first frame the client sends (Tversion): CSession and
// ServeConn both propose DefaultMSize, so this is how a smaller msize gets
// negotiated: the server sees the smaller proposal, adopts it and answers with
// it, and the client adopts the answer.

type half struct {
	mu     sync.Mutex
	cond   *sync.Cond
	buf    []byte
	closed bool
}

func newHalf() *half { h := &half{}; h.cond = sync.NewCond(&h.mu); return h }

func (h *half) write(p []byte) (int, error) {
	h.mu.Lock()
	defer h.mu.Unlock()
	if h.closed {
		return 0, io.ErrClosedPipe
	}
	h.buf = append(h.buf, p...)
	h.cond.Broadcast()
	return len(p), nil
}

func (h *half) read(p []byte) (int, error) {
	h.mu.Lock()
	defer h.mu.Unlock()
	for len(h.buf) == 0 && !h.closed {
		h.cond.Wait()
	}
	if len(h.buf) == 0 {
		return 0, io.EOF
	}
	n := copy(p, h.buf)
	h.buf = h.buf[n:]
	return n, nil
}

func (h *half) close() {
	h.mu.Lock()
	h.closed = true
	h.cond.Broadcast()
	h.mu.Unlock()
}

type memConn struct {
	r, w    *half
	msize   uint32 // != 0: patch the first outgoing frame's msize field
	pending []byte
	patched bool
}

type memAddr struct{}

func (memAddr) Network() string { return "mem" }
func (memAddr) String() string  { return "mem" }

func (c *memConn) Read(p []byte) (int, error) { return c.r.read(p) }
func (c *memConn) Write(p []byte) (int, error) {
	if c.msize == 0 || c.patched {
		return c.w.write(p)
	}
	c.pending = append(c.pending, p...)
	if len(c.pending) >= 4 {
		size := int(binary.LittleEndian.Uint32(c.pending))
		if len(c.pending) >= size && size >= 11 { // the size field counts itself
			// size[4] type[1] tag[2] msize[4] ...
			binary.LittleEndian.PutUint32(c.pending[7:], c.msize)
			c.patched = true
			if _, err := c.w.write(c.pending); err != nil {
				return 0, err
			}
			c.pending = nil
		}
	}
	return len(p), nil
}
func (c *memConn) Close() error                       { c.r.close(); c.w.close(); return nil }
func (c *memConn) LocalAddr() net.Addr                { return memAddr{} }
func (c *memConn) RemoteAddr() net.Addr               { return memAddr{} }
func (c *memConn) SetDeadline(t time.Time) error      { return nil }
func (c *memConn) SetReadDeadline(t time.Time) error  { return nil }
func (c *memConn) SetWriteDeadline(t time.Time) error { return nil }

// newMemPair returns (client end, server end).
func newMemPair(msize uint32) (*memConn, *memConn) {
	a, b := newHalf(), newHalf()
	return &memConn{r: a, w: b, msize: msize}, &memConn{r: b, w: a}
}
