package main

import (
	"os"
	"reflect"
	"strings"

	p9p "github.com/frobnitzem/go-p9p"
)

// isNilEnt: the implementation handed back no entry at all (nil interface, nil
// pointer) -- to be reported as a failure of the operation, never dereferenced.
func isNilEnt(d p9p.Dirent) bool {
	if d == nil {
		return true
	}
	v := reflect.ValueOf(d)
	return !v.IsValid() || (v.Kind() == reflect.Ptr && v.IsNil())
}

// implPanic: is the function that panicked (the first frame below the run-time's own) part of
// the library under test?  Decided by the frame's source file (closures of the library that got
// inlined carry the caller's package in their symbol name) as well as by its symbol.  A panic of
// the harness's own code must stay a dead harness.
func implPanic(stack string) bool {
	repo := os.Getenv("VERIF_REPO")
	if repo == "" {
		repo = "/repo"
	}
	lines := strings.Split(stack, "\n")
	start := 0
	for i, l := range lines {
		if strings.HasPrefix(l, "panic(") {
			start = i + 1
		}
	}
	for i := start; i < len(lines); i++ {
		l := lines[i]
		if l == "" || strings.HasPrefix(l, "\t") || strings.HasPrefix(l, "goroutine ") {
			continue
		}
		if strings.HasPrefix(l, "runtime.") || strings.HasPrefix(l, "runtime/") || strings.HasPrefix(l, "panic(") {
			continue
		}
		if strings.HasPrefix(l, "github.com/frobnitzem/go-p9p") {
			return true
		}
		return i+1 < len(lines) && strings.HasPrefix(strings.TrimSpace(lines[i+1]), repo+"/")
	}
	return false
}
