// C20 harness: the client file-system layer.
//
//	CFileSys( spy( SFileSys( scripted FileSys ) ) )
//
// Random sequences of Attach/Walk/Open/OpenDir/Create/Stat/WStat/Clunk/Remove on
// the entries obtained so far, with name lists containing "", ".", ".." and
// separator forms.  The spy records the session call each operation issues and
// the answer it got; after every operation the server's fid table is read
// through p9p.VerifFidTable.  Each sequence ends by clunking or removing every
// entry still held.  The case (operations + the session's answers) and the
// observation (call issued, result, bound fids) are compared with the Coq
// model (coq/theories/Model/Cfs.v); direct oracles written from the property
// text run on the implementation's behaviour.
package main

import (
	"context"
	"errors"
	"fmt"
	"io"
	"log"
	"reflect"
	"runtime/debug"
	"sort"
	"strings"
	"time"

	p9p "github.com/frobnitzem/go-p9p"

	"verifharness/internal/prng"
	"verifharness/internal/rep"
	"verifharness/internal/sx"
)

var codec = p9p.NewCodec()
var errScript = errors.New("scripted failure")

// ---------------------------------------------------------------- scripted FileSys

type plan struct {
	attachFail bool
	needAuth   bool // RequireAuth()
	authFail   bool
	attachQid  p9p.Qid
	walkK      int   // number of qids to answer with; -1: error
	walkSeq    []int // if non-empty: one walkK per call of the FS's Walk, in order (walks sent in several messages)
	walkQids   []p9p.Qid
	openFail   bool
	iounit     int
	createFail bool
	createQid  p9p.Qid
	statFail   bool
	statDir    p9p.Dir
	wstatFail  bool
	clunkFail  bool
	removeFail bool
}

type sFS struct{ p *plan }
type sEnt struct {
	fs  *sFS
	qid p9p.Qid
}
type sFile struct{ iounit int }

func (f sFile) Read(ctx context.Context, p []byte, offset int64) (int, error)  { return 0, nil }
func (f sFile) Write(ctx context.Context, p []byte, offset int64) (int, error) { return len(p), nil }
func (f sFile) IOUnit() int                                                    { return f.iounit }

func (fs *sFS) RequireAuth(ctx context.Context) bool { return fs.p.needAuth }
func (fs *sFS) Auth(ctx context.Context, uname, aname string) (p9p.AuthFile, error) {
	if fs.p.authFail {
		return nil, errScript
	}
	return otherAuthFile{}, nil
}
func (fs *sFS) Attach(ctx context.Context, uname, aname string, af p9p.AuthFile) (p9p.Dirent, error) {
	if fs.p.attachFail {
		return nil, errScript
	}
	return sEnt{fs, fs.p.attachQid}, nil
}
func (e sEnt) Qid() p9p.Qid { return e.qid }
func (e sEnt) OpenDir(ctx context.Context) (p9p.ReadNext, error) {
	if e.fs.p.openFail {
		return nil, errScript
	}
	return func(context.Context) ([]p9p.Dir, error) { return nil, nil }, nil
}
func (e sEnt) Walk(ctx context.Context, names ...string) ([]p9p.Qid, p9p.Dirent, error) {
	p := e.fs.p
	k := p.walkK
	if len(p.walkSeq) > 0 {
		k = p.walkSeq[0]
		p.walkSeq = p.walkSeq[1:]
	}
	if k < 0 {
		return nil, nil, errScript
	}
	if len(names) == 0 {
		return nil, sEnt{e.fs, e.qid}, nil
	}
	if k > len(names) {
		k = len(names)
	}
	qids := append([]p9p.Qid{}, p.walkQids[:k]...)
	q := e.qid
	if k > 0 {
		q = qids[k-1]
	}
	return qids, sEnt{e.fs, q}, nil
}
func (e sEnt) Create(ctx context.Context, name string, perm uint32, mode p9p.Flag) (p9p.Dirent, p9p.File, error) {
	if e.fs.p.createFail {
		return nil, nil, errScript
	}
	return sEnt{e.fs, e.fs.p.createQid}, sFile{e.fs.p.iounit}, nil
}
func (e sEnt) Open(ctx context.Context, mode p9p.Flag) (p9p.File, error) {
	if e.fs.p.openFail {
		return nil, errScript
	}
	return sFile{e.fs.p.iounit}, nil
}
func (e sEnt) Remove(ctx context.Context) error {
	if e.fs.p.removeFail {
		return errScript
	}
	return nil
}
func (e sEnt) Clunk(ctx context.Context) error {
	if e.fs.p.clunkFail {
		return errScript
	}
	return nil
}
func (e sEnt) Stat(ctx context.Context) (p9p.Dir, error) {
	if e.fs.p.statFail {
		return p9p.Dir{}, errScript
	}
	return e.fs.p.statDir, nil
}
func (e sEnt) WStat(ctx context.Context, stat p9p.Dir) error {
	if e.fs.p.wstatFail {
		return errScript
	}
	return nil
}

// ---------------------------------------------------------------- spy session

type call struct {
	kind         string
	fid, newfid  p9p.Fid
	afid         p9p.Fid
	uname, aname string
	names        []string
	mode         p9p.Flag
	name         string
	perm         uint32
	dir          p9p.Dir
	ans          sx.S
	err          error
	qids         []p9p.Qid
	complete     bool
	count        int
	off          int64
	data         []byte
}

type spy struct {
	inner p9p.Session
	msize int
	calls []call
}

func qidS(q p9p.Qid) sx.S {
	return sx.L(sx.U(uint64(q.Type)), sx.U(uint64(q.Version)), sx.U(q.Path))
}
func dirBytes(d p9p.Dir) []byte {
	b, err := codec.Marshal(d)
	if err != nil {
		panic(err)
	}
	return b
}

func (s *spy) Auth(ctx context.Context, afid p9p.Fid, uname, aname string) (p9p.Qid, error) {
	q, err := s.inner.Auth(ctx, afid, uname, aname)
	c := call{kind: "auth", fid: afid, uname: uname, aname: aname, err: err}
	if err != nil {
		c.ans = sx.Sym("err")
	} else {
		c.ans = sx.L(sx.Sym("qid"), sx.U(uint64(q.Type)), sx.U(uint64(q.Version)), sx.U(q.Path))
	}
	s.calls = append(s.calls, c)
	return q, err
}
func (s *spy) Attach(ctx context.Context, fid, afid p9p.Fid, uname, aname string) (p9p.Qid, error) {
	q, err := s.inner.Attach(ctx, fid, afid, uname, aname)
	c := call{kind: "attach", fid: fid, afid: afid, uname: uname, aname: aname, err: err}
	if err != nil {
		c.ans = sx.Sym("err")
	} else {
		c.ans = sx.L(sx.Sym("qid"), sx.U(uint64(q.Type)), sx.U(uint64(q.Version)), sx.U(q.Path))
	}
	s.calls = append(s.calls, c)
	return q, err
}
func (s *spy) Clunk(ctx context.Context, fid p9p.Fid) error {
	err := s.inner.Clunk(ctx, fid)
	s.calls = append(s.calls, call{kind: "clunk", fid: fid, err: err, ans: unitOrErr(err)})
	return err
}
func (s *spy) Remove(ctx context.Context, fid p9p.Fid) error {
	err := s.inner.Remove(ctx, fid)
	s.calls = append(s.calls, call{kind: "remove", fid: fid, err: err, ans: unitOrErr(err)})
	return err
}
func unitOrErr(err error) sx.S {
	if err != nil {
		return sx.Sym("err")
	}
	return sx.Sym("unit")
}
func (s *spy) Walk(ctx context.Context, fid, newfid p9p.Fid, names ...string) ([]p9p.Qid, error) {
	qids, err := s.inner.Walk(ctx, fid, newfid, names...)
	c := call{kind: "walk", fid: fid, newfid: newfid, names: append([]string{}, names...), err: err, qids: qids}
	if err != nil {
		c.ans = sx.Sym("err")
	} else {
		l := []sx.S{sx.Sym("walk")}
		for _, q := range qids {
			l = append(l, qidS(q))
		}
		c.ans = sx.List(l)
		c.complete = len(qids) == len(names)
	}
	s.calls = append(s.calls, c)
	return qids, err
}
func (s *spy) Read(ctx context.Context, fid p9p.Fid, p []byte, offset int64) (int, error) {
	n, err := s.inner.Read(ctx, fid, p, offset)
	c := call{kind: "read", fid: fid, count: len(p), off: offset, err: err}
	if err != nil {
		c.ans = sx.Sym("err")
	} else {
		c.ans = sx.L(sx.Sym("read"), sx.B(p[:n]))
	}
	s.calls = append(s.calls, c)
	return n, err
}
func (s *spy) Write(ctx context.Context, fid p9p.Fid, p []byte, offset int64) (int, error) {
	n, err := s.inner.Write(ctx, fid, p, offset)
	c := call{kind: "write", fid: fid, data: append([]byte{}, p...), off: offset, err: err}
	if err != nil {
		c.ans = sx.Sym("err")
	} else {
		c.ans = sx.L(sx.Sym("written"), sx.I(int64(n)))
	}
	s.calls = append(s.calls, c)
	return n, err
}
func (s *spy) Open(ctx context.Context, fid p9p.Fid, mode p9p.Flag) (p9p.Qid, uint32, error) {
	q, iou, err := s.inner.Open(ctx, fid, mode)
	c := call{kind: "open", fid: fid, mode: mode, err: err}
	if err != nil {
		c.ans = sx.Sym("err")
	} else {
		c.ans = sx.L(sx.Sym("open"), qidS(q), sx.U(uint64(iou)))
	}
	s.calls = append(s.calls, c)
	return q, iou, err
}
func (s *spy) Create(ctx context.Context, parent p9p.Fid, name string, perm uint32, mode p9p.Flag) (p9p.Qid, uint32, error) {
	q, iou, err := s.inner.Create(ctx, parent, name, perm, mode)
	c := call{kind: "create", fid: parent, name: name, perm: perm, mode: mode, err: err, qids: []p9p.Qid{q}}
	if err != nil {
		c.ans = sx.Sym("err")
	} else {
		c.ans = sx.L(sx.Sym("open"), qidS(q), sx.U(uint64(iou)))
	}
	s.calls = append(s.calls, c)
	return q, iou, err
}
func (s *spy) Stat(ctx context.Context, fid p9p.Fid) (p9p.Dir, error) {
	d, err := s.inner.Stat(ctx, fid)
	c := call{kind: "stat", fid: fid, err: err}
	if err != nil {
		c.ans = sx.Sym("err")
	} else {
		c.ans = sx.L(sx.Sym("stat"), sx.B(dirBytes(d)))
	}
	s.calls = append(s.calls, c)
	return d, err
}
func (s *spy) WStat(ctx context.Context, fid p9p.Fid, dir p9p.Dir) error {
	err := s.inner.WStat(ctx, fid, dir)
	s.calls = append(s.calls, call{kind: "wstat", fid: fid, dir: dir, err: err, ans: unitOrErr(err)})
	return err
}
func (s *spy) Version() (int, string) { return s.msize, "9P2000" }
func (s *spy) Stop(err error) error   { return s.inner.Stop(err) }

func (c *call) sexp() sx.S {
	switch c.kind {
	case "attach":
		return sx.L(sx.Sym("attach"), sx.U(uint64(c.fid)), sx.U(uint64(c.afid)), sx.Str(c.uname), sx.Str(c.aname))
	case "walk":
		return sx.L(sx.Sym("walk"), sx.U(uint64(c.fid)), sx.U(uint64(c.newfid)), sx.Strs(c.names))
	case "open":
		return sx.L(sx.Sym("open"), sx.U(uint64(c.fid)), sx.U(uint64(c.mode)))
	case "create":
		return sx.L(sx.Sym("create"), sx.U(uint64(c.fid)), sx.Str(c.name), sx.U(uint64(c.perm)), sx.U(uint64(c.mode)))
	case "stat":
		return sx.L(sx.Sym("stat"), sx.U(uint64(c.fid)))
	case "wstat":
		return sx.L(sx.Sym("wstat"), sx.U(uint64(c.fid)), sx.B(dirBytes(c.dir)))
	case "clunk":
		return sx.L(sx.Sym("clunk"), sx.U(uint64(c.fid)))
	case "remove":
		return sx.L(sx.Sym("remove"), sx.U(uint64(c.fid)))
	case "auth":
		return sx.L(sx.Sym("auth"), sx.U(uint64(c.fid)), sx.Str(c.uname), sx.Str(c.aname))
	case "read":
		return sx.L(sx.Sym("read"), sx.U(uint64(c.fid)), sx.I(int64(c.count)), sx.I(c.off))
	case "write":
		return sx.L(sx.Sym("write"), sx.U(uint64(c.fid)), sx.B(c.data), sx.I(c.off))
	}
	panic("unknown call kind")
}

// ---------------------------------------------------------------- driver

type slotInfo struct {
	ent  p9p.Dirent
	fid  uint32 // the entry object's own fid, read off the object
	live bool
}

// an auth file obtained from Auth (a failed Auth hands back the layer's noAuth)
type aslotInfo struct {
	af   p9p.AuthFile
	afid uint32 // read off the object
	ok   bool   // Auth succeeded
	live bool   // not closed yet
}

// afileFid reads the unexported afid field of the client layer's auth file object.
func afileFid(a p9p.AuthFile) uint32 {
	v := reflect.ValueOf(a)
	if v.Kind() == reflect.Ptr {
		v = v.Elem()
	}
	f := v.FieldByName("afid")
	if !f.IsValid() {
		panic(fmt.Sprintf("the client layer's auth file type %T has no field 'afid' any more: adapt the harness", a))
	}
	return uint32(f.Uint())
}

// entFid reads the unexported fid field of the client layer's entry object.
func entFid(d p9p.Dirent) uint32 {
	v := reflect.ValueOf(d)
	if v.Kind() == reflect.Ptr {
		v = v.Elem()
	}
	f := v.FieldByName("fid")
	if !f.IsValid() {
		panic(fmt.Sprintf("the client layer's entry type %T has no field 'fid' any more: adapt the harness", d))
	}
	return uint32(f.Uint())
}

var nameAlphabet = []string{"a", "b", "dir1", "x", ".", "", "..", "..", ".", "c", "d", "e", "long-name-01"}
var sepNames = []string{"x/y", "a\\b", "/\\", "/", "\\"}

var plainNames = []string{"a", "b", "c", "d", "e", "dir1", "x", "long-name-01"}

// genLongNames: 17..40 ordinary names (more than one Twalk can carry), sometimes with
// "" / "." sprinkled in, which the layer drops before sending.
func genLongNames(rng *prng.R) []string {
	n := rng.Range(14, 40)
	if rng.Bool() {
		n = rng.Pick(15, 16, 17, 18, 31, 32, 33, 40)
	}
	var l []string
	for i := 0; i < n; i++ {
		l = append(l, plainNames[rng.Intn(len(plainNames))])
		if rng.Chance(1, 15) {
			l = append(l, []string{"", "."}[rng.Intn(2)])
		}
	}
	return l
}

func genNames(rng *prng.R) []string {
	switch rng.Intn(12) {
	case 0:
		return nil
	case 1:
		return []string{"dir1", "."}
	case 2:
		return []string{"x", ".."}
	case 3:
		return []string{"."}
	case 4:
		return []string{"", "a", "", "b"}
	}
	n := rng.Intn(6)
	l := make([]string, n)
	for i := range l {
		if rng.Chance(1, 12) {
			l[i] = string(rng.Bytes(rng.Intn(4)))
		} else if rng.Chance(1, 25) {
			l[i] = sepNames[rng.Intn(len(sepNames))]
		} else {
			l[i] = nameAlphabet[rng.Intn(len(nameAlphabet))]
		}
	}
	return l
}

// a directory is a qid with the QTDIR bit, whatever other type bits it carries
var dirTypes = []p9p.QType{p9p.QTDIR, p9p.QTDIR | p9p.QTTMP, p9p.QTDIR | p9p.QTAPPEND, p9p.QTDIR | p9p.QTEXCL, p9p.QTDIR | p9p.QTMOUNT, p9p.QTDIR | 0x7f}
var fileTypes = []p9p.QType{0, p9p.QTTMP, p9p.QTAPPEND, p9p.QTEXCL, 0x7f}

func genQid(rng *prng.R, dirProb int) p9p.Qid {
	var t p9p.QType
	if rng.Intn(100) < dirProb {
		t = dirTypes[rng.Intn(len(dirTypes))]
		if rng.Chance(1, 5) {
			t = p9p.QTDIR | p9p.QType(rng.U64())
		}
	} else {
		t = fileTypes[rng.Intn(len(fileTypes))]
		if rng.Chance(1, 5) {
			t = p9p.QType(rng.U64()) &^ p9p.QTDIR
		}
	}
	return p9p.Qid{Type: t, Version: uint32(rng.Intn(5)), Path: uint64(rng.Intn(1000))}
}

func boundFids(r *rep.Report, inner p9p.Session) ([]uint32, int) {
	tab, ok := p9p.VerifFidTable(inner)
	if !ok {
		panic("VerifFidTable does not know the session")
	}
	var out []uint32
	odd := 0
	for _, e := range tab {
		// a fid the server holds: bound to an entry, or held for an auth file (no entry, a file)
		out = append(out, uint32(e.Fid))
		if e.Locked || (!e.Bound && !e.Open) {
			odd++ // still locked, or neither entry nor file
		}
	}
	sort.Slice(out, func(i, j int) bool { return out[i] < out[j] })
	return out, odd
}

func fidsS(f []uint32) sx.S {
	l := make([]sx.S, len(f))
	for i, x := range f {
		l[i] = sx.U(uint64(x))
	}
	return sx.List(l)
}

func contains(f []uint32, x uint32) bool {
	for _, y := range f {
		if y == x {
			return true
		}
	}
	return false
}

// runSeq: e2e = false: CFileSys(spy(SFileSys(scripted FS)));
// e2e = true: CFileSys(spy(CSession)) -> in-memory conn -> ServeConn(SSession(SFileSys(scripted FS))),
// i.e. the real client session (csession.go) is what answers the layer's calls, and the fid
// table read is the one of the SFileSys at the far end.
// mode 2: CFileSys(spy(randSess)): a session that answers every call by the roll of a die (any
// answer to any call, consistent with nothing) -- the "arbitrary scripted session" the theorems
// quantify over; there is no server behind it, so no fid table is observed in this family.
func runSeq(r *rep.Report, rng *prng.R, mode int) {
	e2e, scripted := mode == 1, mode == 2
	ctx, cancel := context.WithTimeout(context.Background(), 900*time.Second)
	defer cancel()
	p := &plan{}
	fs := &sFS{p}
	inner := p9p.SFileSys(fs)
	msize := rng.Pick(65536, 65536, 8192, 12, 11)
	var sess p9p.Session = inner
	if e2e {
		msize = 65536 // what CSession and ServeConn negotiate
		// ServeConn allows version negotiation one second of wall-clock; on a loaded machine that
		// can expire before the exchange happened, which says nothing about the property: set up again.
		for try := 0; ; try++ {
			cc, sc := newMemPair(0)
			served := make(chan error, 1)
			go func() { served <- p9p.ServeConn(ctx, sc, p9p.SSession(inner)) }()
			cs, err := func() (p9p.Session, error) {
				type res struct {
					s   p9p.Session
					err error
				}
				ch := make(chan res, 1)
				go func() { s, err := p9p.CSession(ctx, cc); ch <- res{s, err} }()
				select {
				case x := <-ch:
					return x.s, x.err
				case serr := <-served:
					cc.Close()
					<-ch
					return nil, fmt.Errorf("server left: %v", serr)
				}
			}()
			if err == nil {
				sess = cs
				defer func() {
					cc.Close()
					select {
					case <-served:
					case <-time.After(30 * time.Second):
					}
				}()
				break
			}
			cc.Close()
			if try >= 10 {
				panic(fmt.Sprintf("e2e set-up failed 10 times: %v", err))
			}
			inner = p9p.SFileSys(fs)
		}
	}
	if scripted {
		sess = &randSess{rng: rng.Fork()}
	}
	sp := &spy{inner: sess, msize: msize}
	cfs := p9p.CFileSys(sp)
	tableOf := func() ([]uint32, int) {
		if scripted {
			return nil, 0
		}
		return boundFids(r, inner)
	}

	var slots []slotInfo
	var aslots []aslotInfo
	var ops, obs []sx.S
	nops := rng.Range(3, 30)
	hasWalkDot, hadFailWalk := false, false
	oddTotal := 0

	caseSoFar := func() sx.S {
		head := "cfs"
		if scripted {
			head = "cfsx"
		}
		l := []sx.S{sx.Sym(head), sx.I(int64(msize))}
		return sx.List(append(l, ops...))
	}

	// one operation: runs it, appends to ops/obs, applies the per-operation oracles
	// the slice handed to the previous Walk, what the caller had put into it, and what was sent
	var lastArg, lastMeant, lastSent []string
	lastIssued := false
	reuse := false // walk the SAME slice again
	do := func(kind string, si int) {
		var walkNames []string // what the caller means to walk (pristine)
		var walkArg []string   // the slice actually handed to Walk
		if kind == "walk" {
			if reuse && lastArg != nil {
				walkNames, walkArg = lastMeant, lastArg
			} else {
				reuse = false
				if rng.Chance(1, 4) {
					walkNames = genLongNames(rng)
				} else {
					walkNames = genNames(rng)
				}
				walkArg = append([]string{}, walkNames...)
			}
		}
		*p = plan{
			attachFail: rng.Chance(1, 8), attachQid: genQid(rng, 90),
			needAuth: rng.Chance(3, 4), authFail: rng.Chance(1, 5),
			walkK: 99, openFail: rng.Chance(1, 6),
			iounit:     rng.Pick(0, 0, 1, 4096, 8192, 1<<20),
			createFail: rng.Chance(1, 5), createQid: genQid(rng, 40),
			statFail: rng.Chance(1, 6), wstatFail: rng.Chance(1, 6),
			clunkFail: rng.Chance(1, 6), removeFail: rng.Chance(1, 6),
		}
		p.statDir = p9p.Dir{Name: string(rng.Bytes(rng.Intn(6))), Length: uint64(rng.Intn(1000)), Mode: uint32(rng.U64()),
			AccessTime: time.Unix(int64(rng.Intn(1<<30)), 0).UTC(), ModTime: time.Unix(int64(rng.Intn(1<<30)), 0).UTC()}
		switch rng.Intn(6) {
		case 0:
			p.walkK = -1
		case 1, 2:
			p.walkK = rng.Intn(4)
		}
		for i := 0; i < 64; i++ {
			dp := 85
			p.walkQids = append(p.walkQids, genQid(rng, dp))
		}
		if steps, bsp := p9p.NormalizePath(append([]string{}, walkNames...)); bsp >= 0 && len(steps) > 4 { // on a copy: the pristine list stays pristine
			// a long walk: all names exist / the walk stops somewhere / fails; and, should the
			// session send it in several messages, the first message succeeds and a later one does not
			switch rng.Intn(4) {
			case 0:
				p.walkK = 99
			case 1:
				p.walkK = rng.Intn(len(steps))
			}
			if len(steps) > 16 {
				p.walkSeq = []int{99, rng.Pick(-1, 0, rng.Intn(len(steps)-16), 99), rng.Pick(-1, 0, 99)}
			}
		}
		if kind == "create" {
			// SFileSys opens a created directory itself; a failure there takes its own
			// clean-up path (defect D9, another property's business): keep it out of here
			p.openFail = false
		}
		ncalls := len(sp.calls)
		var res sx.S
		var opHead []sx.S
		var ent p9p.Dirent
		var efid uint32
		authOp := kind == "auth" || kind == "aread" || kind == "awrite" || kind == "aclose"
		if kind != "attach" && !authOp {
			ent, efid = slots[si].ent, slots[si].fid
		}
		var af p9p.AuthFile // the auth file an auth-file operation works on
		var afid uint32
		if authOp && kind != "auth" {
			af, afid = aslots[si].af, aslots[si].afid
		}
		slotWasDir, createSafe, createName, createQType := false, false, "", p9p.QType(0)
		if kind == "create" {
			createQType = ent.Qid().Type
			slotWasDir = createQType&p9p.QTDIR != 0
		}
		panicked := false
		panicText, nilWhat := "", "" // the implementation panicked / returned nothing and no error
		afk := 0
		attachAfid := uint32(p9p.NOFID) // the afid Attach has to send
		var authErr error
		newAfid, gotAfile := uint32(0), false
		var walkRes struct {
			qids []p9p.Qid
			ent  p9p.Dirent
			err  error
		}
		func() {
			defer func() {
				if x := recover(); x != nil {
					st := string(debug.Stack())
					if !implPanic(st) {
						panic(x) // a fault of the harness itself
					}
					panicked = true
					panicText = fmt.Sprintf("%v\n%s", x, st)
					res = sx.Sym("panic")
				}
			}()
			switch kind {
			case "attach":
				uname, aname := string(rng.Bytes(rng.Intn(4))), string(rng.Bytes(rng.Intn(4)))
				var aaf p9p.AuthFile
				ai := 0
				if rng.Chance(1, 12) {
					afk = 2
					aaf = otherAuthFile{}
				} else if len(aslots) > 0 && rng.Chance(1, 3) {
					// attach with an auth file obtained earlier (also a closed one, also the noAuth of a refused Tauth)
					afk = 1
					ai = rng.Intn(len(aslots))
					aaf = aslots[ai].af
					attachAfid = aslots[ai].afid
				}
				opHead = []sx.S{sx.Sym("attach"), sx.Str(uname), sx.Str(aname), sx.I(int64(afk)), sx.I(int64(ai))}
				e, err := cfs.Attach(ctx, uname, aname, aaf)
				if err != nil {
					res = sx.Sym("err")
				} else if isNilEnt(e) {
					res, nilWhat = sx.Sym("nil-entry"), "Attach returned no entry and no error"
				} else {
					f := entFid(e)
					res = sx.L(sx.Sym("ent"), sx.U(uint64(f)), qidS(e.Qid()))
					slots = append(slots, slotInfo{e, f, true})
				}
			case "walk":
				opHead = []sx.S{sx.Sym("walk"), sx.I(int64(si)), sx.Strs(walkNames)}
				qids, e, err := ent.Walk(ctx, walkArg...)
				walkRes.qids, walkRes.ent, walkRes.err = qids, e, err
				var w p9p.Warning
				switch {
				case err == nil && isNilEnt(e):
					res, nilWhat = sx.Sym("nil-entry"), fmt.Sprintf("Walk(%q) returned no entry and no error", walkNames)
				case err == nil:
					f := entFid(e)
					ql := make([]sx.S, len(qids))
					for i, q := range qids {
						ql[i] = qidS(q)
					}
					res = sx.L(sx.Sym("walk"), sx.List(ql), sx.U(uint64(f)), qidS(e.Qid()))
					slots = append(slots, slotInfo{e, f, true})
				case errors.As(err, &w):
					ql := make([]sx.S, len(qids))
					for i, q := range qids {
						ql[i] = qidS(q)
					}
					res = sx.L(sx.Sym("partial"), sx.List(ql))
				case len(sp.calls) == ncalls:
					res = sx.Sym("invalid")
				default:
					res = sx.Sym("err")
				}
			case "open":
				mode := p9p.Flag(rng.Pick(0, 1, 2, 3, 0x10, 0x40))
				opHead = []sx.S{sx.Sym("open"), sx.I(int64(si)), sx.U(uint64(mode))}
				f, err := ent.Open(ctx, mode)
				if err != nil {
					res = sx.Sym("err")
				} else if f == nil {
					res, nilWhat = sx.Sym("nil-entry"), "Open returned no file and no error"
				} else {
					res = sx.L(sx.Sym("file"), sx.I(int64(f.IOUnit())))
				}
			case "opendir":
				opHead = []sx.S{sx.Sym("opendir"), sx.I(int64(si))}
				next, err := ent.OpenDir(ctx)
				if err != nil {
					res = sx.Sym("err")
				} else if next == nil {
					res, nilWhat = sx.Sym("nil-entry"), "OpenDir returned no iterator and no error"
				} else {
					res = sx.Sym("dir")
				}
			case "create":
				name := nameAlphabet[rng.Intn(len(nameAlphabet))]
				if rng.Chance(1, 6) {
					name = string(rng.Bytes(rng.Intn(4)))
				} else if rng.Chance(1, 5) {
					name = sepNames[rng.Intn(len(sepNames))]
				}
				perm := uint32(rng.U64())
				mode := p9p.Flag(rng.Pick(0, 1, 2))
				createName = name
				createSafe = name != "" && name != "." && name != ".." && !strings.ContainsAny(name, "/\\")
				opHead = []sx.S{sx.Sym("create"), sx.I(int64(si)), sx.Str(name), sx.U(uint64(perm)), sx.U(uint64(mode))}
				e, f, err := ent.Create(ctx, name, perm, mode)
				switch {
				case err == nil && (isNilEnt(e) || f == nil):
					res, nilWhat = sx.Sym("nil-entry"), fmt.Sprintf("Create(%q) returned no entry or no file, and no error", name)
				case err == nil:
					nf := entFid(e)
					res = sx.L(sx.Sym("created"), sx.U(uint64(nf)), qidS(e.Qid()), sx.I(int64(f.IOUnit())))
					slots[si].ent, slots[si].fid = e, nf
				case len(sp.calls) == ncalls:
					res = sx.Sym("refused")
				default:
					res = sx.Sym("err")
				}
			case "stat":
				opHead = []sx.S{sx.Sym("stat"), sx.I(int64(si))}
				d, err := ent.Stat(ctx)
				if err != nil {
					res = sx.Sym("err")
				} else {
					res = sx.L(sx.Sym("stat"), sx.B(dirBytes(d)))
				}
			case "wstat":
				d := p9p.Dir{Name: string(rng.Bytes(rng.Intn(5))), Mode: uint32(rng.U64()),
					AccessTime: time.Unix(int64(rng.Intn(1<<30)), 0).UTC(), ModTime: time.Unix(int64(rng.Intn(1<<30)), 0).UTC()}
				opHead = []sx.S{sx.Sym("wstat"), sx.I(int64(si)), sx.B(dirBytes(d))}
				if err := ent.WStat(ctx, d); err != nil {
					res = sx.Sym("err")
				} else {
					res = sx.Sym("unit")
				}
			case "auth":
				uname, aname := string(rng.Bytes(rng.Intn(4))), string(rng.Bytes(rng.Intn(4)))
				opHead = []sx.S{sx.Sym("auth"), sx.Str(uname), sx.Str(aname)}
				a, err := cfs.Auth(ctx, uname, aname)
				authErr = err
				switch {
				case a == nil:
					if err == nil {
						res, nilWhat = sx.Sym("nil-entry"), "Auth returned no auth file and no error"
					} else {
						res = sx.Sym("err")
					}
					aslots = append(aslots, aslotInfo{af: nil, afid: uint32(p9p.NOFID)})
				case err != nil:
					res = sx.Sym("err")
					aslots = append(aslots, aslotInfo{af: a, afid: afileFid(a)})
				default:
					f := afileFid(a)
					res = sx.L(sx.Sym("authfile"), sx.U(uint64(f)), sx.I(int64(a.IOUnit())))
					aslots = append(aslots, aslotInfo{af: a, afid: f, ok: true, live: true})
					newAfid, gotAfile = f, true
				}
			case "aread":
				count, off := rng.Intn(65), int64(rng.Intn(1000))
				opHead = []sx.S{sx.Sym("aread"), sx.I(int64(si)), sx.I(int64(count)), sx.I(off)}
				buf := make([]byte, count)
				n, err := af.Read(ctx, buf, off)
				if err != nil {
					res = sx.Sym("err")
				} else {
					res = sx.L(sx.Sym("read"), sx.B(buf[:n]))
				}
			case "awrite":
				data, off := rng.Bytes(rng.Intn(17)), int64(rng.Intn(1000))
				opHead = []sx.S{sx.Sym("awrite"), sx.I(int64(si)), sx.B(data), sx.I(off)}
				n, err := af.Write(ctx, data, off)
				if err != nil {
					res = sx.Sym("err")
				} else {
					res = sx.L(sx.Sym("written"), sx.I(int64(n)))
				}
			case "aclose":
				opHead = []sx.S{sx.Sym("aclose"), sx.I(int64(si))}
				err := af.Close(ctx)
				aslots[si].live = false
				if err != nil {
					res = sx.Sym("err")
				} else {
					res = sx.Sym("unit")
				}
			case "clunk", "remove":
				opHead = []sx.S{sx.Sym(kind), sx.I(int64(si))}
				var err error
				if kind == "clunk" {
					err = ent.Clunk(ctx)
				} else {
					err = ent.Remove(ctx)
				}
				slots[si].live = false
				if err != nil {
					res = sx.Sym("err")
				} else {
					res = sx.Sym("unit")
				}
			}
		}()
		issued := sp.calls[ncalls:]
		var callS, ans sx.S = sx.Sym("none"), sx.Sym("none")
		if len(issued) >= 1 {
			callS, ans = issued[0].sexp(), issued[0].ans
		}
		bound, odd := tableOf()
		oddTotal += odd
		ops = append(ops, sx.List(append(opHead, ans)))
		if scripted {
			obs = append(obs, sx.L(callS, res))
		} else {
			obs = append(obs, sx.L(callS, res, fidsS(bound)))
		}
		rs := sx.String(res)
		if i := strings.IndexByte(rs, ' '); i > 0 {
			rs = rs[1:i]
		}
		opResults[kind+":"+rs]++
		c := caseSoFar()

		// ---- oracles, from the property text
		if panicked {
			nPanics++
			r.Fail("cfs."+kind+".panic", fmt.Sprintf("%s panicked inside the client layer: %s", kind, strings.SplitN(panicText, "\n", 2)[0]), c, map[string]interface{}{"stack": panicText})
		}
		if nilWhat != "" {
			r.Fail("cfs."+kind+".nil-entry", nilWhat, c, nil)
		}
		if kind == "attach" && afk == 0 && len(issued) == 0 && !panicked {
			r.Fail("cfs.attach.not-forwarded", "Attach (no auth file) issued no session call", c, nil)
		}
		if len(issued) > 1 {
			r.Fail("cfs."+kind+".calls", fmt.Sprintf("%s issued %d session calls", kind, len(issued)), c, nil)
		}
		if len(issued) >= 1 {
			ic := issued[0]
			wantKind := kind
			if kind == "opendir" {
				wantKind = "open"
			}
			if !(authOp && kind != "auth") && ic.kind != wantKind {
				r.Fail("cfs."+kind+".forward", fmt.Sprintf("%s issued the session call %s", kind, ic.kind), c, nil)
			}
			if authOp && kind != "auth" {
				wk := map[string]string{"aread": "read", "awrite": "write", "aclose": "clunk"}[kind]
				if ic.kind != wk {
					r.Fail("cfs."+kind+".forward", fmt.Sprintf("%s on the auth file issued the session call %s", kind, ic.kind), c, nil)
				}
				if uint32(ic.fid) != afid {
					r.Fail("cfs."+kind+".ownfid", fmt.Sprintf("%s on the auth file with afid %d issued %s on fid %d", kind, afid, ic.kind, ic.fid), c, nil)
				}
			}
			if kind == "attach" && !panicked && uint32(ic.afid) != attachAfid {
				r.Fail("cfs.attach.afid", fmt.Sprintf("Attach with the auth file on afid %d sent afid %d", attachAfid, ic.afid), c, nil)
			}
			if kind == "auth" && !panicked {
				if ic.err != nil {
					// a refused Tauth surfaces as an error and leaves no fid behind
					if authErr == nil {
						r.Fail("cfs.auth.refused-reported-ok", fmt.Sprintf("the session refused Tauth on afid %d (%v), the layer reported success", ic.fid, ic.err), c, nil)
					}
					if contains(bound, uint32(ic.fid)) {
						r.Fail("cfs.auth.refused-bound", fmt.Sprintf("Tauth on afid %d was refused, yet the server holds that fid", ic.fid), c, nil)
					}
				} else {
					if authErr != nil || !gotAfile {
						r.Fail("cfs.auth.accepted-reported-failed", fmt.Sprintf("the session accepted Tauth on afid %d, the layer reported %v", ic.fid, authErr), c, nil)
					} else if newAfid != uint32(ic.fid) {
						r.Fail("cfs.auth.afid", fmt.Sprintf("Tauth was sent on afid %d, the auth file returned sits on afid %d", ic.fid, newAfid), c, nil)
					}
				}
			}
			if kind != "attach" && !authOp && uint32(ic.fid) != efid {
				r.Fail("cfs."+kind+".ownfid", fmt.Sprintf("%s on the entry with fid %d issued %s on fid %d", kind, efid, ic.kind, ic.fid), c, nil)
			}
			if kind == "walk" && reuse && lastIssued && strings.Join(ic.names, "\x00") != strings.Join(lastSent, "\x00") {
				r.Fail("cfs.walk.same-slice-different-names", fmt.Sprintf("the same name slice %q walked twice: the first Walk sent %q, the second %q", walkNames, lastSent, ic.names), c, nil)
			}
			if kind == "walk" {
				// the layer normalises before sending: no "", no ".", ".." only as a leading run, no separators
				lead := true
				for _, nm := range ic.names {
					if nm == "" || nm == "." || strings.ContainsAny(nm, "/\\") || (nm == ".." && !lead) {
						r.Fail("cfs.walk.unnormalised", fmt.Sprintf("Walk(%q) sent the names %q to the session", walkNames, ic.names), c, nil)
						break
					}
					if nm != ".." {
						lead = false
					}
				}
			}
			if kind == "create" && ic.err == nil && !panicked && nilWhat == "" && slots[si].ent.Qid() != createdQid(ic) {
				r.Fail("cfs.create.qid", fmt.Sprintf("Create: the session answered qid %v, the entry returned has qid %v", createdQid(ic), slots[si].ent.Qid()), c, nil)
			}
			if kind == "walk" && !panicked && nilWhat == "" {
				if ic.err == nil && ic.complete {
					// the server completed the walk: success, entry for the walked-to file
					if strings.Contains(strings.Join(walkNames, "\x00"), ".") || len(walkNames) != len(ic.names) {
						hasWalkDot = true
					}
					wantQ := ent.Qid()
					if len(ic.qids) > 0 {
						wantQ = ic.qids[len(ic.qids)-1]
					}
					if walkRes.err != nil {
						r.Fail("cfs.walk.complete-reported-failed", fmt.Sprintf("Walk(%q) from fid %d: the session completed the walk (%d names sent, %d qids) on newfid %d, the layer reported %v", walkNames, efid, len(ic.names), len(ic.qids), ic.newfid, walkRes.err), c, nil)
					} else if entFid(walkRes.ent) != uint32(ic.newfid) || walkRes.ent.Qid() != wantQ {
						r.Fail("cfs.walk.entry", fmt.Sprintf("Walk(%q): entry has fid %d qid %v, want fid %d qid %v", walkNames, entFid(walkRes.ent), walkRes.ent.Qid(), ic.newfid, wantQ), c, nil)
					}
				} else {
					hadFailWalk = true
					if walkRes.err == nil {
						r.Fail("cfs.walk.failed-reported-ok", fmt.Sprintf("Walk(%q): the session did not complete the walk, the layer reported success", walkNames), c, nil)
					}
					if contains(bound, uint32(ic.newfid)) {
						r.Fail("cfs.walk.failed-bound", fmt.Sprintf("Walk(%q) failed or was partial, yet fid %d is bound on the server", walkNames, ic.newfid), c, nil)
					}
				}
			}
		}
		if kind == "walk" && !panicked {
			// the caller's name list is the caller's: the call must leave it as it was
			if len(walkArg) != len(walkNames) || strings.Join(walkArg, "\x00") != strings.Join(walkNames, "\x00") {
				r.Fail("cfs.walk.argument-modified", fmt.Sprintf("Walk was handed %q; after the call the caller's slice holds %q", walkNames, walkArg), c, nil)
			}
			lastArg, lastMeant, lastIssued = walkArg, walkNames, len(issued) >= 1
			lastSent = nil
			if lastIssued {
				lastSent = issued[0].names
			}
		}
		if kind == "create" && len(issued) == 0 && slotWasDir && createSafe {
			r.Fail("cfs.create.not-forwarded", fmt.Sprintf("Create(%q) on the directory entry with fid %d (qid type %#x) issued no session call", createName, efid, createQType), c, nil)
		}
		// live entries: pairwise distinct fids, none NOFID
		seen := map[uint32]int{}
		for i, s := range slots {
			if !s.live {
				continue
			}
			if s.fid == uint32(p9p.NOFID) {
				r.Fail("cfs.fid.nofid", fmt.Sprintf("live entry %d has fid NOFID", i), c, nil)
			}
			if j, dup := seen[s.fid]; dup {
				r.Fail("cfs.fid.duplicate", fmt.Sprintf("live entries %d and %d share fid %d", j, i, s.fid), c, nil)
			}
			seen[s.fid] = i
		}
		for i, a := range aslots {
			if !a.live {
				continue
			}
			if a.afid == uint32(p9p.NOFID) {
				r.Fail("cfs.fid.nofid", fmt.Sprintf("live auth file %d has afid NOFID", i), c, nil)
			}
			if j, dup := seen[a.afid]; dup {
				r.Fail("cfs.fid.duplicate", fmt.Sprintf("the live auth file %d shares fid %d with live object %d", i, a.afid, j), c, nil)
			}
			seen[a.afid] = -1 - i
		}
	}

	for len(ops) < nops {
		var live []int
		for i, s := range slots {
			if s.live {
				live = append(live, i)
			}
		}
		if len(slots) == 0 || (len(live) == 0 && rng.Chance(3, 4)) || rng.Chance(1, 12) {
			do("attach", -1)
			continue
		}
		si := rng.Intn(len(slots))
		if len(live) > 0 && rng.Chance(19, 20) {
			si = live[rng.Intn(len(live))]
		}
		if rng.Chance(1, 10) {
			do("auth", -1)
			continue
		}
		if rng.Chance(1, 8) {
			// something on an auth file held (rarely: closed already); Close also on the noAuth of a refused Tauth
			var held, any []int
			for i, a := range aslots {
				if a.ok && a.live {
					held = append(held, i)
				}
				if a.ok {
					any = append(any, i)
				}
			}
			ak := []string{"aread", "awrite", "aclose"}[rng.Intn(3)]
			switch {
			case len(held) > 0 && rng.Chance(9, 10):
				do(ak, held[rng.Intn(len(held))])
				continue
			case len(any) > 0 && rng.Chance(1, 2):
				do(ak, any[rng.Intn(len(any))])
				continue
			case len(aslots) > 0 && aslots[len(aslots)-1].af != nil && rng.Chance(1, 2):
				do("aclose", len(aslots)-1)
				continue
			}
		}
		kind := []string{"walk", "walk", "walk", "walk", "open", "opendir", "create", "create", "stat", "wstat", "clunk", "remove"}[rng.Intn(12)]
		reuse = false
		do(kind, si)
		if kind == "walk" && rng.Chance(1, 4) && len(ops) < nops {
			// a caller that keeps its name list and walks it again
			reuse = true
			do("walk", si)
			reuse = false
		}
	}
	// the caller lets go of everything it still holds
	for i := range slots {
		if slots[i].live {
			if rng.Bool() {
				do("clunk", i)
			} else {
				do("remove", i)
			}
		}
	}
	for i := range aslots {
		if aslots[i].live {
			do("aclose", i)
		}
	}
	bound, _ := tableOf()
	c := caseSoFar()
	if len(bound) != 0 {
		r.Fail("cfs.leak", fmt.Sprintf("every entry obtained was clunked or removed and every auth file closed, the server still holds fids %v", bound), c, nil)
	}
	br := "cfs"
	if e2e {
		br = "cfs-e2e"
	}
	if scripted {
		br = "cfs-scripted"
	}
	if hasWalkDot {
		br += ":normalised-walk"
	}
	if hadFailWalk {
		br += ":failed-walk"
	}
	r.Extra["unbound_table_entries_seen"] = oddTotal
	r.Case(c, sx.List(obs), br, len(ops) > 1)
}

func createdQid(c call) p9p.Qid { return c.qids[0] }

var opResults = map[string]int{}
var nPanics = 0

type otherAuthFile struct{}

func (otherAuthFile) Read(ctx context.Context, p []byte, offset int64) (int, error)  { return 0, nil }
func (otherAuthFile) Write(ctx context.Context, p []byte, offset int64) (int, error) { return 0, nil }
func (otherAuthFile) IOUnit() int                                                    { return 0 }
func (otherAuthFile) Close(ctx context.Context) error                                { return nil }
func (otherAuthFile) Success() bool                                                  { return true }

func main() {
	r := rep.Open()
	defer r.Close()
	log.SetOutput(io.Discard)
	if uint32(p9p.NOFID) != 0xFFFFFFFF || p9p.QTDIR != 0x80 || p9p.OREAD != 0 {
		panic("NOFID/QTDIR/OREAD differ from the constants of Model/Cfs.v")
	}
	r.Rule = "random sequences of 3..30 Attach/Walk/Open/OpenDir/Create/Stat/WStat/Clunk/Remove on CFileSys(spy(SFileSys(scripted FS))), name lists over {a,b,dir1,x,'.','','..',x/y,a\\b,random bytes} incl. (dir1 .), (x ..), (.), the FS answering each call by script (complete/partial/failed walks, failing opens/creates/clunks), name lists of up to 40 names, every sequence closed by clunking or removing all live entries; the same family over a session that answers every call at random (Rauth/Rerror, auth files that can be read, written and attached with, any number of qids); the same family end to end over CFileSys(spy(CSession))->in-memory conn->ServeConn(SSession(SFileSys(scripted FS))) with the fid table read at the far end; plus long histories (one attach, 85000..1200000 walk(+clunk/remove) rounds from the live root, 72000..960000 fid allocations, some entries kept live) described by three numbers and expanded identically by harness and model, compared on the fid of every call. Non-trivial: more than one operation; distinct by canonical case text."
	rng := prng.New(r.Seed)
	n := r.N(600, 15000)
	for i := 0; i < n; i++ {
		runSeq(r, rng.Fork(), 0)
	}
	// the same over the real client session and a connection (walks of more than 16 names meet
	// csession.go's Walk here)
	ne := r.N(150, 3000)
	for i := 0; i < ne; i++ {
		runSeq(r, rng.Fork(), 1)
	}
	// and over a session that answers anything at all (also what no server would: auth files that
	// can be read and attached with, surplus qids, ...)
	nx := r.N(300, 6000)
	for i := 0; i < nx; i++ {
		runSeq(r, rng.Fork(), 2)
	}
	r.Extra["operations_by_result"] = opResults
	defer func() { r.Extra["implementation_panics"] = nPanics }()
	// long histories: past 2^16 fid allocations with the root and early entries live
	runLong(r, 65536, 90000, 0)
	runLong(r, 8192, 85000, 997)
	if r.Thorough() {
		runLong(r, 65536, 400000, 4099)
		runLong(r, 65536, 1200000, 0)
	}
}
