package main

import (
	"context"
	"time"

	p9p "github.com/frobnitzem/go-p9p"

	"verifharness/internal/prng"
)

// randSess answers every session call by the roll of a die.
type randSess struct{ rng *prng.R }

func (s *randSess) fail() bool { return s.rng.Chance(1, 6) }

func (s *randSess) Auth(ctx context.Context, afid p9p.Fid, uname, aname string) (p9p.Qid, error) {
	if s.rng.Chance(1, 3) {
		return p9p.Qid{}, errScript
	}
	return p9p.Qid{Type: p9p.QTAUTH, Path: uint64(s.rng.Intn(100))}, nil
}
func (s *randSess) Attach(ctx context.Context, fid, afid p9p.Fid, uname, aname string) (p9p.Qid, error) {
	if s.fail() {
		return p9p.Qid{}, errScript
	}
	return genQid(s.rng, 90), nil
}
func (s *randSess) Clunk(ctx context.Context, fid p9p.Fid) error {
	if s.fail() {
		return errScript
	}
	return nil
}
func (s *randSess) Remove(ctx context.Context, fid p9p.Fid) error {
	if s.fail() {
		return errScript
	}
	return nil
}
func (s *randSess) Walk(ctx context.Context, fid, newfid p9p.Fid, names ...string) ([]p9p.Qid, error) {
	if s.fail() {
		return nil, errScript
	}
	k := len(names)
	if s.rng.Chance(1, 3) {
		k = s.rng.Intn(len(names) + 2) // short, complete, or one too many
	}
	qids := make([]p9p.Qid, k)
	for i := range qids {
		qids[i] = genQid(s.rng, 85)
	}
	return qids, nil
}
func (s *randSess) Read(ctx context.Context, fid p9p.Fid, p []byte, offset int64) (int, error) {
	if s.fail() {
		return 0, errScript
	}
	n := s.rng.Intn(len(p) + 1)
	copy(p, s.rng.Bytes(n))
	return n, nil
}
func (s *randSess) Write(ctx context.Context, fid p9p.Fid, p []byte, offset int64) (int, error) {
	if s.fail() {
		return 0, errScript
	}
	return s.rng.Intn(len(p) + 1), nil
}
func (s *randSess) Open(ctx context.Context, fid p9p.Fid, mode p9p.Flag) (p9p.Qid, uint32, error) {
	if s.fail() {
		return p9p.Qid{}, 0, errScript
	}
	return genQid(s.rng, 50), uint32(s.rng.Pick(0, 0, 1, 4096, 8192, 1<<20)), nil
}
func (s *randSess) Create(ctx context.Context, parent p9p.Fid, name string, perm uint32, mode p9p.Flag) (p9p.Qid, uint32, error) {
	if s.fail() {
		return p9p.Qid{}, 0, errScript
	}
	return genQid(s.rng, 40), uint32(s.rng.Pick(0, 0, 1, 4096, 8192, 1<<20)), nil
}
func (s *randSess) Stat(ctx context.Context, fid p9p.Fid) (p9p.Dir, error) {
	if s.fail() {
		return p9p.Dir{}, errScript
	}
	return p9p.Dir{Name: string(s.rng.Bytes(s.rng.Intn(6))), Length: uint64(s.rng.Intn(1000)),
		AccessTime: time.Unix(int64(s.rng.Intn(1<<30)), 0).UTC(), ModTime: time.Unix(int64(s.rng.Intn(1<<30)), 0).UTC()}, nil
}
func (s *randSess) WStat(ctx context.Context, fid p9p.Fid, dir p9p.Dir) error {
	if s.fail() {
		return errScript
	}
	return nil
}
func (s *randSess) Version() (int, string) { return 65536, "9P2000" }
func (s *randSess) Stop(err error) error   { return err }
