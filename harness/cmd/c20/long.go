package main

import (
	"context"
	"fmt"
	"runtime/debug"
	"sort"

	p9p "github.com/frobnitzem/go-p9p"

	"verifharness/internal/rep"
	"verifharness/internal/sx"
)

// Long histories: one CFileSys, tens of thousands of fid allocations, with the
// root (fid 1) and some early entries live all the way.  The history is a
// function of (rounds, keepEvery) -- see long_run in coq/theories/Run/RunC20.v,
// which expands the same description -- so the case is three numbers, while the
// model has to predict the fid of every call issued: the walks whose newfid is
// not the previous one + 1 are listed and every call goes into a rolling
// checksum.  Any change to the allocation sequence shows up here.

var q7 = p9p.Qid{Type: p9p.QTDIR, Version: 0, Path: 7}

func hmix(h, v uint64) uint64 { return (h*1000003 + v + 1) % 2147483647 }

func hcall(h uint64, c *call) uint64 {
	switch c.kind {
	case "attach":
		return hmix(hmix(hmix(h, 1), uint64(c.fid)), uint64(c.afid))
	case "walk":
		return hmix(hmix(hmix(hmix(h, 2), uint64(c.fid)), uint64(c.newfid)), uint64(len(c.names)))
	case "clunk":
		return hmix(hmix(h, 3), uint64(c.fid))
	case "remove":
		return hmix(hmix(h, 4), uint64(c.fid))
	}
	return hmix(h, 9)
}

func longNames(k int) []string {
	switch k {
	case 0:
		return nil
	case 1:
		return []string{"a"}
	case 2:
		return []string{"a", "b"}
	case 3:
		return []string{"x/y"}
	}
	return []string{"dir1", "."}
}

func runLong(r *rep.Report, msize, rounds, keepEvery int) {
	ctx := context.Background()
	p := &plan{}
	inner := p9p.SFileSys(&sFS{p})
	sp := &spy{inner: inner, msize: msize}
	cfs := p9p.CFileSys(sp)
	c := sx.L(sx.Sym("long"), sx.I(int64(msize)), sx.I(int64(rounds)), sx.I(int64(keepEvery)))

	scripted := true
	var h uint64
	take := func() []call { // the calls issued since the last take
		cs := sp.calls
		sp.calls = nil
		for i := range cs {
			h = hcall(h, &cs[i])
		}
		return cs
	}
	failed := map[string]bool{}
	fail := func(key, what string) { // one report per kind of failure is enough for a replay
		if !failed[key] {
			failed[key] = true
			r.Fail(key, what, c, nil)
		}
	}

	// guard runs one call of the implementation; a panic inside the library ends this history
	// with a recorded failure, not the run
	abandoned := false
	guard := func(what string, f func()) {
		defer func() {
			if x := recover(); x != nil {
				st := string(debug.Stack())
				if !implPanic(st) {
					panic(x)
				}
				nPanics++
				abandoned = true
				fail("cfs.long.panic", fmt.Sprintf("%s panicked inside the client layer: %v", what, x))
			}
		}()
		f()
	}
	giveUp := func(why string) {
		r.Case(c, sx.L(sx.Sym("long"), sx.Sym(why)), "cfs-long:"+why, true)
	}

	*p = plan{attachQid: p9p.Qid{Type: p9p.QTDIR, Version: 0, Path: 1}, walkK: 99}
	var root p9p.Dirent
	var err error
	guard("Attach", func() { root, err = cfs.Attach(ctx, "", "", nil) })
	if abandoned {
		giveUp("panic")
		return
	}
	if err != nil || isNilEnt(root) {
		fail("cfs.long.attach", fmt.Sprintf("Attach(\"\", \"\", nil) on a file system that accepts it: entry %v, error %v", root, err))
		giveUp("attach-failed")
		return
	}
	take()
	rootFid := entFid(root)
	live := map[uint32]string{rootFid: "the root"}
	type held struct {
		ent p9p.Dirent
		fid uint32
	}
	var kept []held
	walks := 0
	prev := uint64(rootFid)
	var breaks []sx.S

	for i := 0; i < rounds; i++ {
		k := i % 5
		names := longNames(k)
		*p = plan{walkK: 99, walkQids: []p9p.Qid{q7, q7, q7}}
		wantQids := 1
		switch k {
		case 0:
			wantQids = 0
		case 2:
			p.walkK = 1
		}
		var qids []p9p.Qid
		var e p9p.Dirent
		var werr error
		guard(fmt.Sprintf("round %d: Walk(%q)", i, names), func() { qids, e, werr = root.Walk(ctx, names...) })
		if abandoned {
			giveUp("panic")
			return
		}
		cs := take()
		if k == 3 {
			if len(cs) != 0 || werr == nil {
				scripted = false
			}
			continue
		}
		if len(cs) != 1 || cs[0].kind != "walk" {
			fail("cfs.long.forward", fmt.Sprintf("round %d: Walk(%q) issued %d session calls", i, names, len(cs)))
			scripted = false
			continue
		}
		ic := cs[0]
		if uint32(ic.fid) != rootFid {
			fail("cfs.walk.ownfid", fmt.Sprintf("round %d: walk from the root (fid %d) issued on fid %d", i, rootFid, ic.fid))
		}
		if uint64(ic.newfid) != prev+1 {
			if len(breaks) < 50 {
				breaks = append(breaks, sx.L(sx.I(int64(walks)), sx.U(uint64(ic.newfid))))
			}
		}
		walks++
		prev = uint64(ic.newfid)
		if ic.err != nil || len(ic.qids) != wantQids {
			scripted = false
		}
		_ = qids
		if werr != nil {
			if k != 2 {
				if ic.err == nil && ic.complete {
					fail("cfs.walk.complete-reported-failed", fmt.Sprintf("round %d: Walk(%q) completed by the session on newfid %d, the layer reported %v", i, names, ic.newfid, werr))
				}
			}
			continue
		}
		if k == 2 {
			fail("cfs.walk.failed-reported-ok", fmt.Sprintf("round %d: partial walk reported as success", i))
		}
		if isNilEnt(e) {
			fail("cfs.walk.nil-entry", fmt.Sprintf("round %d: Walk(%q) returned no entry and no error", i, names))
			continue
		}
		f := entFid(e)
		if f == uint32(p9p.NOFID) {
			fail("cfs.fid.nofid", fmt.Sprintf("round %d: the new entry has fid NOFID", i))
		}
		if who, dup := live[f]; dup {
			fail("cfs.fid.duplicate", fmt.Sprintf("round %d (after %d fid allocations): the new entry got fid %d, which %s still holds", i, walks+1, f, who))
		}
		if keepEvery != 0 && i%keepEvery == 0 {
			live[f] = fmt.Sprintf("the entry kept in round %d", i)
			kept = append(kept, held{e, f})
			continue
		}
		var cerr error
		want := "clunk"
		if i%2 == 0 {
			guard(fmt.Sprintf("round %d: Clunk", i), func() { cerr = e.Clunk(ctx) })
		} else {
			guard(fmt.Sprintf("round %d: Remove", i), func() { cerr = e.Remove(ctx) })
			want = "remove"
		}
		if abandoned {
			giveUp("panic")
			return
		}
		cs = take()
		if len(cs) != 1 || cs[0].kind != want {
			fail("cfs."+want+".forward", fmt.Sprintf("round %d: %s issued %d calls", i, want, len(cs)))
		} else if uint32(cs[0].fid) != f {
			fail("cfs."+want+".ownfid", fmt.Sprintf("round %d: %s on the entry with fid %d issued on fid %d", i, want, f, cs[0].fid))
		}
		if cerr != nil {
			scripted = false
		}
	}

	var liveFids []uint32
	for f := range live {
		liveFids = append(liveFids, f)
	}
	sort.Slice(liveFids, func(i, j int) bool { return liveFids[i] < liveFids[j] })
	for _, k := range append(kept, held{root, rootFid}) {
		var cerr error
		guard("final Clunk", func() { cerr = k.ent.Clunk(ctx) })
		if abandoned {
			giveUp("panic")
			return
		}
		if cerr != nil {
			scripted = false
		}
		cs := take()
		if len(cs) == 1 && uint32(cs[0].fid) != k.fid {
			fail("cfs.clunk.ownfid", fmt.Sprintf("clunk on the entry with fid %d issued on fid %d", k.fid, cs[0].fid))
		}
	}
	bound, _ := boundFids(r, inner)
	if len(bound) != 0 {
		fail("cfs.leak", fmt.Sprintf("every entry obtained was clunked or removed, the server still holds fids %v", bound))
	}
	sc := int64(0)
	if scripted {
		sc = 1
	}
	obs := sx.L(sx.Sym("long"),
		sx.L(sx.Sym("walks"), sx.I(int64(walks))),
		sx.L(sx.Sym("breaks"), sx.List(breaks)),
		sx.L(sx.Sym("hash"), sx.U(h)),
		sx.L(sx.Sym("live"), fidsS(liveFids)),
		sx.L(sx.Sym("bound"), fidsS(bound)),
		sx.L(sx.Sym("scripted"), sx.I(sc)))
	r.Case(c, obs, "cfs-long", true)
	if m, ok := r.Extra["longest_history_fid_allocations"].(int); !ok || walks+1 > m {
		r.Extra["longest_history_fid_allocations"] = walks + 1
	}
}
