// C19 harness: a real ufs session on S/export and a twin S/twin driven by the
// equivalent direct os calls (twin.go).  After every operation the two results
// and the two trees (names, kinds, modes, sizes, content) are compared with
// each other (direct oracle) and, through cases.txt, with the Coq model
// (Model/Ufs.v on Model/HostFS.v).  At the end of each session every node of
// the tree is looked at through a freshly walked fid (stat, listing, content)
// and compared with what the host itself reports.
package main

import (
	"bytes"
	"fmt"
	"os"
	"os/signal"
	"path/filepath"
	"sort"
	"strings"
	"syscall"
	"time"

	p9p "github.com/frobnitzem/go-p9p"
	"github.com/frobnitzem/go-p9p/ufs"

	"verifharness/cmd/c15/drv"
	"verifharness/internal/prng"
	"verifharness/internal/rep"
	"verifharness/internal/sx"
)

var plain = []string{"a", "b", "c", "d", "f", "g", "a", "b", "c", "d", "f", "g", "a", "b", "c", "d", "f", "g",
	// legal names that merely contain dots
	"notes..txt", "..hidden", "v1..", "a...b", "...", ".a", "a.", "x..y"}

var anames = []string{"", "", "", "", "/", "sub", "/a", "..", "../outside", "a/../..", "/.."}

type gen struct {
	rng *prng.R
	tw  *twin
}

func (g *gen) boundFids() []uint32 {
	var l []uint32
	for k := range g.tw.fids {
		l = append(l, k)
	}
	sort.Slice(l, func(i, j int) bool { return l[i] < l[j] })
	return l
}

func (g *gen) freeFid() uint32 {
	for i := 0; i < 20; i++ {
		f := uint32(g.rng.Intn(8))
		if g.tw.fids[f] == nil {
			return f
		}
	}
	return uint32(g.rng.Intn(8))
}

func (g *gen) anyFid() uint32 {
	b := g.boundFids()
	if len(b) > 0 && g.rng.Chance(9, 10) {
		return b[g.rng.Intn(len(b))]
	}
	if g.rng.Chance(1, 10) {
		return drv.NOFID
	}
	return uint32(g.rng.Intn(8))
}

// fidWhere picks a bound fid satisfying pred (or any fid when there is none).
func (g *gen) fidWhere(pred func(*tfid) bool) uint32 {
	var l []uint32
	for _, k := range g.boundFids() {
		if pred(g.tw.fids[k]) {
			l = append(l, k)
		}
	}
	if len(l) == 0 || g.rng.Chance(1, 12) {
		return g.anyFid()
	}
	return l[g.rng.Intn(len(l))]
}

// nodes: every path in the twin tree, as component lists (root = empty list).
func (g *gen) nodes() [][]string {
	out := [][]string{{}}
	for _, n := range drv.Tree(g.tw.root, false)[1:] {
		out = append(out, strings.Split(n.Rel, "/"))
	}
	return out
}

func (g *gen) mode() uint8 {
	if g.rng.Chance(3, 10) {
		return uint8(g.rng.Intn(256))
	}
	return uint8(g.rng.Pick(0, 0, 1, 1, 2, 2, 2, 3, 0x10, 0x11, 0x12, 0x12, 0x13, 0x40, 0x42))
}

func (g *gen) namesTo(from []string, to []string) []string {
	k := 0
	for k < len(from) && k < len(to) && from[k] == to[k] {
		k++
	}
	var ns []string
	for i := k; i < len(from); i++ {
		ns = append(ns, "..")
	}
	return append(ns, to[k:]...)
}

func sizeOf(t *twin, f *tfid) int64 {
	st, err := os.Stat(t.path(f.comps))
	if err != nil {
		return 0
	}
	return st.Size()
}

func (g *gen) next() drv.Op {
	r := g.rng
	if len(g.tw.fids) == 0 || r.Chance(1, 40) {
		return drv.Op{Kind: "attach", Fid: g.freeFid(), Aname: anames[r.Intn(len(anames))]}
	}
	switch k := r.Intn(100); {
	case k < 20: // walk
		src := g.fidWhere(func(f *tfid) bool { return f.info.dir })
		o := drv.Op{Kind: "walk", Fid: src, NewFid: g.freeFid()}
		if r.Chance(1, 6) {
			o.NewFid = src
		}
		if r.Chance(1, 20) {
			o.NewFid = g.anyFid()
		}
		f := g.tw.fids[src]
		switch {
		case r.Chance(1, 6) || f == nil:
			// clone
		case r.Chance(1, 8):
			o.Names = []string{plain[r.Intn(len(plain))], plain[r.Intn(len(plain))]}
		case r.Chance(1, 12):
			o.Names = []string{[]string{".", "", "a/b", "..", "x\\y"}[r.Intn(5)], "a"}
		default:
			ns := g.nodes()
			o.Names = g.namesTo(f.comps, ns[r.Intn(len(ns))])
		}
		return o
	case k < 40: // create (on a clone most of the time, so that the directory fid survives)
		src := g.fidWhere(func(f *tfid) bool { return f.info.dir })
		o := drv.Op{Kind: "create", Fid: src, Name: plain[r.Intn(len(plain))], Mode: g.mode()}
		o.Perm = uint32(r.Intn(512))
		if r.Chance(2, 3) {
			o.Perm |= 0o600
		}
		if r.Chance(1, 3) {
			o.Perm |= 0x80000000
			if r.Chance(3, 4) {
				o.Perm |= 0o700
			}
		}
		if r.Chance(1, 25) {
			o.Name = []string{"", ".", "..", "a/b", strings.Repeat("n", 255), strings.Repeat("n", 256)}[r.Intn(6)]
		}
		return o
	case k < 48: // open
		return drv.Op{Kind: "open", Fid: g.fidWhere(func(f *tfid) bool { return f.kind == 0 }), Mode: g.mode()}
	case k < 60: // read
		fid := g.fidWhere(func(f *tfid) bool { return f.kind == 2 })
		sz := int64(0)
		if f := g.tw.fids[fid]; f != nil {
			sz = sizeOf(g.tw, f)
		}
		off := []int64{0, 0, 1, sz - 1, sz, sz + 1, sz / 2, sz + 40, -1}[r.Intn(9)]
		return drv.Op{Kind: "read", Fid: fid, Count: r.Pick(0, 1, 2, 5, 17, 64, 300, 300), Off: off}
	case k < 74: // write
		fid := g.fidWhere(func(f *tfid) bool { return f.kind == 2 && (f.omode&3 == 1 || f.omode&3 == 2) })
		sz := int64(0)
		if f := g.tw.fids[fid]; f != nil {
			sz = sizeOf(g.tw, f)
		}
		off := []int64{0, 0, 1, sz - 1, sz, sz, sz + 1, sz + 7, int64(r.Range(100, 300)), -1}[r.Intn(10)]
		return drv.Op{Kind: "write", Fid: fid, Data: r.Bytes(r.Pick(0, 1, 3, 8, 8, 33)), Off: off}
	case k < 78:
		return drv.Op{Kind: "stat", Fid: g.anyFid()}
	case k < 82:
		return drv.Op{Kind: "readdir", Fid: g.fidWhere(func(f *tfid) bool { return f.kind == 1 })}
	case k < 94: // wstat
		fid := g.anyFid()
		o := drv.Op{Kind: "wstat", Fid: fid, WMode: ^uint32(0), WLen: ^uint64(0)}
		f := g.tw.fids[fid]
		what := r.Intn(8)
		if what&1 != 0 || what == 0 {
			o.WMode = uint32(r.Intn(512))
			if f != nil && r.Chance(1, 3) {
				// the permission bits the file had when this fid was bound (what a server that caches the
				// stat of a fid still believes): set again after another chmod through the same fid, this
				// must reach the host like any other chmod
				o.WMode = f.info.mode & 0o777
			}
			if r.Chance(1, 5) {
				o.WMode |= uint32(r.Pick(0x80000000, 0x40000000, 0o4000, 0o1000))
			}
		}
		if what&2 != 0 {
			sz := int64(0)
			if f != nil {
				sz = sizeOf(g.tw, f)
			}
			o.WLen = []uint64{0, 1, uint64(max64(sz-1, 0)), uint64(sz), uint64(sz + 3), 257, 1<<63 + 1}[r.Intn(7)]
		}
		if what&4 != 0 {
			switch r.Intn(10) {
			case 0:
				o.Name = plain[r.Intn(len(plain))] + "/" + plain[r.Intn(len(plain))]
			case 1:
				o.Name = "../" + plain[r.Intn(len(plain))]
			case 2:
				o.Name = []string{".", "..", "/x", "a\\b", "x/../y", "../../z"}[r.Intn(6)]
			default:
				o.Name = plain[r.Intn(len(plain))]
			}
		}
		if r.Chance(1, 8) {
			o.WMtime = int64(r.Pick(1, 946684800, 1<<31-1, 1700000000))
		}
		if r.Chance(1, 12) {
			o.UID, o.GID = []string{"root", "root", "nosuchuser_verif", ""}[r.Intn(4)], []string{"root", "nosuchgroup_verif", ""}[r.Intn(3)]
		}
		return o
	case k < 97:
		return drv.Op{Kind: "clunk", Fid: g.anyFid()}
	default:
		return drv.Op{Kind: "remove", Fid: g.fidWhere(func(f *tfid) bool { return len(f.comps) > 0 })}
	}
}

func max64(a, b int64) int64 {
	if a > b {
		return a
	}
	return b
}

func main() {
	r := rep.Open()
	defer r.Close()
	r.Rule = "each case is one ufs session of 25-55 calls (create, mkdir, open with all 256 mode bytes sampled, read/write at offsets around the file size, truncate, chmod (random bits, and back to the bits the file had when the fid was bound), rename incl. into sub/parent directories and onto existing entries, remove, walk, stat, directory listing) on a fresh S/export with a twin S/twin driven by direct os calls, followed by a probe of every tree node through freshly walked fids. Names include legal dotted ones ('notes..txt', '..hidden', '...'); Tattach carries various anames; one session in four removes an open fid's file through a second fid and then Tremoves the first; after every clunk/remove/walk the process's descriptors into the export (/proc/self/fd) must equal the fids with a file open, and none may remain after Stop. The host itself sets explicit modification times (0, 1, 2000-01-01, 2^31-1, 2^31, 2^32-1, ...) on random nodes between calls; the modification time (whole seconds) of every freshly bound fid and of every listing entry is compared with os.Lstat / os.ReadDir taken at the same point. A case is non-trivial when at least one operation changed the host tree; distinct by canonical case text."
	rng := prng.New(r.Seed)

	top, err := os.MkdirTemp("", "verif-c19-")
	if err != nil {
		panic(err)
	}
	cleanup := func() { os.RemoveAll(top) }
	defer cleanup()
	sig := make(chan os.Signal, 1)
	signal.Notify(sig, syscall.SIGINT, syscall.SIGTERM, syscall.SIGHUP)
	go func() { <-sig; cleanup(); os.Exit(3) }()
	defer func() {
		if p := recover(); p != nil {
			cleanup()
			panic(p)
		}
	}()

	// util.go oflags on all 256 mode bytes: against the model (cases) and against open(5) (oracle)
	for m := 0; m < 256; m++ {
		fl := ufs.VerifOflags(p9p.Flag(m))
		c := sx.L(sx.Sym("oflags"), sx.I(int64(m)))
		r.Case(c, sx.L(sx.I(int64(fl&3)), sx.Bool(fl&os.O_TRUNC != 0), sx.Bool(fl&os.O_CREATE != 0)), "oflags", true)
		if fl != hostFlags(uint8(m)) {
			r.Fail("ufs.oflags", fmt.Sprintf("oflags(%#x) = %#x, open(5) gives %#x", m, fl, hostFlags(uint8(m))), c, nil)
		}
	}

	nseq := r.N(300, 6000)
	opsTotal, changed := 0, 0
	wstatMtimeAsked, wstatMtimeApplied, hostTimes, timeChecks := 0, 0, 0, 0
	atimeChecks := 0
	modesSeen := map[uint8]bool{}
	okByKind := map[string]int{}
	for i := 0; i < nseq; i++ {
		crng := rng.Fork()
		umask := crng.Pick(0, 0o22, 0o77, 0o27)
		sb, err := drv.NewSandbox(top, true)
		if err != nil {
			panic(err)
		}
		old := syscall.Umask(umask)
		spelling := crng.Intn(drv.NSpellings)
		sess := drv.NewSess(sb.Spelling(spelling))
		tw := newTwin(sb.Twin)
		g := &gen{rng: crng, tw: tw}

		caseL := []sx.S{sx.Sym("seq"), sx.I(int64(umask)), sx.L(sx.Sym("root"), sx.I(int64(spelling)))}
		obsL := []sx.S{sx.Sym("obs")}
		prevTree := ""
		treeChanged := false
		var opsDone []drv.Op

		times := drv.NewTimeOracle(sb.Export)
		exec := func(o drv.Op) (sx.S, []byte) {
			opsDone = append(opsDone, o)
			caseL = append(caseL, o.Sexp())
			if o.Kind == "open" || o.Kind == "create" {
				modesSeen[o.Mode] = true
			}
			res, data := sess.Do(o)
			tres := tw.Do(o)
			fids := sess.Fids()
			tree := drv.Tree(sb.Export, true)
			ttree := drv.Tree(sb.Twin, true)
			ts := drv.TreeSexp(tree)
			tstr := sx.String(ts)
			if tstr == prevTree {
				ts = sx.Sym("same")
			} else if prevTree != "" {
				treeChanged = true
			}
			prevTree = tstr
			obsL = append(obsL, sx.L(res, drv.FidsSexp(fids), ts))
			if res != drv.SErr {
				okByKind[o.Kind]++
			}
			// ---- direct oracle: ufs vs the direct operations
			what := fmt.Sprintf("op %d %s", len(opsDone)-1, sx.String(o.Sexp()))
			cs := sx.List(caseL)
			if sess.Dead != "" {
				r.Fail("ufs.session."+o.Kind+".dead", what+": "+sess.Dead, cs, nil)
			}
			if a, b := sx.String(res), sx.String(tres); a != b {
				r.Fail("ufs."+o.Kind+".result", fmt.Sprintf("%s: ufs answered %s, the direct operation gives %s", what, trunc(a), trunc(b)), cs, nil)
			}
			if o.Kind == "clunk" || o.Kind == "remove" || o.Kind == "walk" {
				nOpen := 0
				for _, f := range fids {
					if f.Open == 2 {
						nOpen++
					}
				}
				if fds := drv.FdsInto(sb.Export); len(fds) != nOpen {
					r.Fail("ufs.fd-leak", fmt.Sprintf("%s: %d descriptors into the export are open, %d fids have a file open: %v", what, len(fds), nOpen, fds), cs, nil)
				}
			}
			for _, tf := range times.After(sess, o, res, fids) {
				r.Fail("ufs."+o.Kind+"."+tf[0], what+": "+tf[1], cs, nil)
			}
			if o.Kind == "wstat" && o.WMtime != 0 && res == drv.SOk {
				wstatMtimeAsked++
				for _, f := range fids {
					if f.Fid == o.Fid {
						if hi, err := os.Lstat(filepath.Join(sb.Export, f.Path)); err == nil && hi.ModTime().Unix() == o.WMtime {
							wstatMtimeApplied++
						}
					}
				}
			}
			if d := drv.TreesEqual(tree, ttree); d != "" {
				r.Fail("ufs."+o.Kind+".tree", fmt.Sprintf("%s: export and twin differ afterwards: %s", what, d), cs, nil)
			}
			return res, data
		}

		exec(drv.Op{Kind: "attach", Fid: 0})
		if crng.Chance(1, 8) { // the root itself, while the export is still empty
			exec(drv.Op{Kind: "walk", Fid: 0, NewFid: 1})
			if crng.Bool() {
				exec(drv.Op{Kind: "wstat", Fid: 1, Name: []string{"x", "../x", "."}[crng.Intn(3)], WMode: ^uint32(0), WLen: ^uint64(0)})
			}
			exec(drv.Op{Kind: "remove", Fid: 1})
		}
		n := crng.Range(25, 55)
		leakAt := -1
		if crng.Chance(1, 4) {
			leakAt = crng.Intn(n)
		}
		for j := 0; j < n; j++ {
			if j == leakAt {
				// a fid with an open file; the file is removed through a second fid; Tremove on
				// the first then fails - and must still release the open file
				nm := plain[crng.Intn(len(plain))]
				exec(drv.Op{Kind: "attach", Fid: 40, Aname: anames[crng.Intn(len(anames))]})
				exec(drv.Op{Kind: "walk", Fid: 40, NewFid: 41})
				exec(drv.Op{Kind: "create", Fid: 41, Name: nm, Perm: 0o644, Mode: 2})
				exec(drv.Op{Kind: "walk", Fid: 40, NewFid: 42, Names: []string{nm}})
				exec(drv.Op{Kind: "remove", Fid: 42})
				exec(drv.Op{Kind: "remove", Fid: 41})
				exec(drv.Op{Kind: "clunk", Fid: 40})
			}
			if crng.Chance(1, 5) {
				// the host itself sets a file's times (not through ufs): explicit values, so that the
				// modification times ufs reports are not always "now"
				nodes := g.nodes()
				nd := nodes[crng.Intn(len(nodes))]
				secs := []int64{0, 1, 86400 * 365 * 30, 1<<31 - 1, 1 << 31, 1<<32 - 1, 1000000007, 946684800}[crng.Intn(8)]
				o := drv.Op{Kind: "hosttime", Rel: strings.Join(nd, "/"), Secs: secs}
				caseL = append(caseL, o.Sexp())
				tm := time.Unix(secs, 0)
				os.Chtimes(filepath.Join(sb.Export, o.Rel), tm, tm)
				os.Chtimes(filepath.Join(sb.Twin, o.Rel), tm, tm)
				hostTimes++
			}
			exec(g.next())
		}
		// ---- probe: every node through a freshly walked fid vs the host itself
		exec(drv.Op{Kind: "attach", Fid: 60})
		nodes := drv.Tree(sb.Export, true)
		if len(nodes) > 9 {
			nodes = append(nodes[:1], nodes[len(nodes)-8:]...)
		}
		for _, nd := range nodes {
			var names []string
			if nd.Rel != "" {
				names = strings.Split(nd.Rel, "/")
			}
			cs := sx.List(caseL)
			atimeBefore, atimeOK := hostAtime(filepath.Join(sb.Export, nd.Rel))
			res, _ := exec(drv.Op{Kind: "walk", Fid: 60, NewFid: 61, Names: names})
			if res == drv.SErr {
				r.Fail("ufs.probe.walk", fmt.Sprintf("cannot walk a fresh fid to existing %q", nd.Rel), cs, nil)
				continue
			}
			st, _ := exec(drv.Op{Kind: "stat", Fid: 61})
			hp := filepath.Join(sb.Export, nd.Rel)
			hi, herr := os.Lstat(hp)
			if atimeAfter, ok := hostAtime(hp); ok && atimeOK && herr == nil && st != drv.SErr && len(sess.LastDirs) == 1 {
				// the access time (whole seconds) the stat carries is the host's: the host is sampled before the
				// walk and after the stat (lstat itself does not touch it), and anything between the two samples
				// is accepted, so that an access-time update caused by the server's own reads cannot alarm
				lo, hi2 := atimeBefore, atimeAfter
				if lo > hi2 {
					lo, hi2 = hi2, lo
				}
				got := sess.LastDirs[0].AccessTime.Unix()
				atimeChecks++
				if got < lo || got > hi2 {
					r.Fail("ufs.probe.stat-atime", fmt.Sprintf("stat of %q through a fresh fid carries access time %d, host: %d..%d", nd.Rel, got, lo, hi2), cs, nil)
				}
			}
			if herr == nil {
				want := drv.InfoSexp(hi.Name(), hi.IsDir(), uint32(hi.Mode()&0o777), uint64(hi.Size()))
				if sx.String(st) != sx.String(want) {
					r.Fail("ufs.probe.stat", fmt.Sprintf("stat of %q through a fresh fid: %s, host: %s", nd.Rel, sx.String(st), sx.String(want)), cs, nil)
				}
				if st != drv.SErr && len(sess.LastDirs) == 1 && sess.LastDirs[0].ModTime.Unix() != hi.ModTime().Unix() {
					r.Fail("ufs.probe.stat-mtime", fmt.Sprintf("stat of %q through a fresh fid carries modification time %d, host: %d", nd.Rel, sess.LastDirs[0].ModTime.Unix(), hi.ModTime().Unix()), cs, nil)
				}
			}
			exec(drv.Op{Kind: "open", Fid: 61, Mode: 0})
			if nd.Dir {
				got, _ := exec(drv.Op{Kind: "readdir", Fid: 61})
				ents, _ := os.ReadDir(hp)
				l := []sx.S{sx.Sym("list")}
				for _, e := range ents {
					ei, _ := e.Info()
					l = append(l, drv.InfoSexp(e.Name(), ei.IsDir(), uint32(ei.Mode()&0o777), uint64(ei.Size())))
				}
				if got != drv.SErr && len(sess.LastDirs) == len(ents) {
					for k, e := range ents {
						if ei, err := e.Info(); err == nil && uint32(sess.LastDirs[k].ModTime.Unix()) != uint32(ei.ModTime().Unix()) {
							r.Fail("ufs.probe.listing-mtime", fmt.Sprintf("listing of %q through a fresh fid: entry %q carries modification time %d, host: %d", nd.Rel, e.Name(), uint32(sess.LastDirs[k].ModTime.Unix()), uint32(ei.ModTime().Unix())), cs, nil)
						}
					}
				}
				if sx.String(got) != sx.String(sx.List(l)) {
					r.Fail("ufs.probe.listing", fmt.Sprintf("listing of %q through a fresh fid: %s, host: %s", nd.Rel, trunc(sx.String(got)), trunc(sx.String(sx.List(l)))), cs, nil)
				}
			} else {
				_, data := exec(drv.Op{Kind: "read", Fid: 61, Count: len(nd.Content) + 5, Off: 0})
				hc, _ := os.ReadFile(hp)
				if !bytes.Equal(data, hc) {
					r.Fail("ufs.probe.content", fmt.Sprintf("content of %q through a fresh fid: %x, host: %x", nd.Rel, data, hc), cs, nil)
				}
			}
			exec(drv.Op{Kind: "clunk", Fid: 61})
		}
		timeChecks += times.Checks
		sess.Close()
		tw.Close()
		if fds := drv.FdsInto(sb.S); len(fds) > 0 && sess.Dead == "" {
			r.Fail("ufs.fd-leak", fmt.Sprintf("after the session was stopped %d descriptors into the sandbox are still open: %v", len(fds), fds), sx.List(caseL), nil)
		}
		final := drv.Tree(sb.Export, true)
		intact := sb.RootIntact() == "" && len(sb.Events()) == 0
		obsL = append(obsL, sx.L(sx.Sym("final"), drv.ContentSexp(final), sx.L(sx.Sym("outside"), sx.Bool(intact))))
		c := sx.List(caseL)
		branch := "tree-unchanged"
		if treeChanged {
			branch = "tree-changed"
			changed++
		}
		r.Case(c, sx.List(obsL), branch, treeChanged)
		if len(r.Samples) < 3 {
			s := sx.String(c)
			if len(s) > 700 {
				s = s[:700] + " ...)"
			}
			r.Samples = append(r.Samples, s)
		}
		opsTotal += len(opsDone)
		syscall.Umask(old)
		sb.Remove()
	}
	r.Extra["mtime_comparisons"] = timeChecks
	r.Extra["atime_comparisons"] = atimeChecks
	r.Extra["host_side_chtimes"] = hostTimes
	r.Extra["wstat_with_mtime_accepted"] = wstatMtimeAsked
	r.Extra["wstat_with_mtime_applied_to_the_host"] = wstatMtimeApplied
	r.Extra["sequences"] = nseq
	r.Extra["operations"] = opsTotal
	r.Extra["sequences_changing_the_tree"] = changed
	r.Extra["distinct_open_modes_exercised"] = len(modesSeen)
	r.Extra["successful_ops_by_kind"] = okByKind
}

func trunc(s string) string {
	if len(s) > 400 {
		return s[:400] + "..."
	}
	return s
}

// hostAtime: the access time (seconds) of a host object, without following a final symlink
func hostAtime(p string) (int64, bool) {
	var st syscall.Stat_t
	if err := syscall.Lstat(p, &st); err != nil {
		return 0, false
	}
	return int64(st.Atim.Sec), true
}
