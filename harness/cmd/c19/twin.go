package main

// The twin: the "equivalent direct OS operations" of C19, written from the
// property text and the 9P manual, on a second directory S/twin.  A fid is a
// name for a path (list of components below the root) plus, once opened, an
// os.File / a directory listing.  Nothing here looks at ufs.

import (
	"io"
	"os"
	"os/user"
	"path/filepath"
	"strconv"
	"strings"
	"syscall"

	"verifharness/cmd/c15/drv"
	"verifharness/internal/sx"
)

type tinfo struct {
	name string
	dir  bool
	mode uint32
	size uint64
}

type tfid struct {
	comps []string
	info  tinfo
	kind  int // 0 not open, 1 directory listing, 2 file
	f     *os.File
	omode uint8
	list  []tinfo
}

type twin struct {
	root string
	fids map[uint32]*tfid
}

func newTwin(root string) *twin { return &twin{root: root, fids: map[uint32]*tfid{}} }

func (t *twin) path(comps []string) string {
	return filepath.Join(append([]string{t.root}, comps...)...)
}

func (t *twin) stat(comps []string) (tinfo, error) {
	for _, c := range comps {
		if strings.ContainsRune(c, 0) {
			return tinfo{}, syscall.EINVAL
		}
	}
	st, err := os.Stat(t.path(comps))
	if err != nil {
		return tinfo{}, err
	}
	name := "export" // the root is reported under the export's own name
	if len(comps) > 0 {
		name = comps[len(comps)-1]
	}
	return tinfo{name, st.IsDir(), uint32(st.Mode() & 0o777), uint64(st.Size())}, nil
}

func (t *twin) listing(comps []string) ([]tinfo, error) {
	ents, err := os.ReadDir(t.path(comps))
	if err != nil {
		return nil, err
	}
	var out []tinfo
	for _, e := range ents {
		info, err := e.Info()
		if err != nil {
			continue
		}
		out = append(out, tinfo{e.Name(), info.IsDir(), uint32(info.Mode() & 0o777), uint64(info.Size())})
	}
	return out, nil
}

func infoS(i tinfo) sx.S { return drv.InfoSexp(i.name, i.dir, i.mode, i.size) }
func qidS(d bool) sx.S   { return sx.L(sx.Sym("qid"), sx.Bool(d)) }

// open(5): the low two bits select read / write / read-write / execute(=read); 0x10 truncates
func hostFlags(mode uint8) int {
	fl := os.O_RDONLY
	switch mode & 3 {
	case 1:
		fl = os.O_WRONLY
	case 2:
		fl = os.O_RDWR
	}
	if mode&0x10 != 0 {
		fl |= os.O_TRUNC
	}
	return fl
}

func (t *twin) free(fid uint32) bool { return fid != drv.NOFID && t.fids[fid] == nil }

// resolveRel: a relative slash-separated name resolved from dir inside the
// tree: "" and "." stay, ".." goes up and stops at the root.
func resolveRel(dir []string, name string) []string {
	cur := append([]string{}, dir...)
	for _, c := range strings.Split(name, "/") {
		switch c {
		case "", ".":
		case "..":
			if len(cur) > 0 {
				cur = cur[:len(cur)-1]
			}
		default:
			cur = append(cur, c)
		}
	}
	return cur
}

func (t *twin) Do(o drv.Op) sx.S {
	f := t.fids[o.Fid]
	if o.Fid == drv.NOFID {
		f = nil
	}
	switch o.Kind {
	case "attach":
		if !t.free(o.Fid) {
			return drv.SErr
		}
		i, err := t.stat(nil)
		if err != nil {
			return drv.SErr
		}
		t.fids[o.Fid] = &tfid{info: i}
		return qidS(i.dir)
	case "walk":
		if !drv.ValidNames(o.Names) || f == nil {
			return drv.SErr
		}
		if o.NewFid != o.Fid && !t.free(o.NewFid) {
			return drv.SErr
		}
		if len(o.Names) == 0 {
			if o.NewFid == o.Fid {
				return sx.L(sx.Sym("walk"), sx.I(0), sx.Bool(false))
			}
			i, err := t.stat(f.comps)
			if err != nil {
				return drv.SErr
			}
			t.fids[o.NewFid] = &tfid{comps: append([]string{}, f.comps...), info: i}
			return sx.L(sx.Sym("walk"), sx.I(0), sx.Bool(false))
		}
		if !f.info.dir {
			return drv.SErr
		}
		cur := append([]string{}, f.comps...)
		for _, n := range o.Names {
			if n == ".." {
				if len(cur) == 0 {
					return drv.SErr // would climb above the root
				}
				cur = cur[:len(cur)-1]
			} else {
				cur = append(cur, n)
			}
		}
		i, err := t.stat(cur)
		if err != nil {
			return drv.SErr
		}
		if o.NewFid == o.Fid && f.f != nil {
			f.f.Close()
		}
		t.fids[o.NewFid] = &tfid{comps: cur, info: i}
		return sx.L(sx.Sym("walk"), sx.I(int64(len(o.Names))), sx.Bool(i.dir))
	case "open":
		if f == nil || f.kind != 0 {
			return drv.SErr
		}
		if f.info.dir {
			l, err := t.listing(f.comps)
			if err != nil {
				return drv.SErr
			}
			f.kind, f.list, f.omode = 1, l, o.Mode
			return qidS(true)
		}
		file, err := os.OpenFile(t.path(f.comps), hostFlags(o.Mode), 0)
		if err != nil {
			return drv.SErr
		}
		f.kind, f.f, f.omode = 2, file, o.Mode
		return qidS(false)
	case "create":
		if f == nil || !f.info.dir || !drv.SafeName(o.Name) || o.Name == ".." {
			return drv.SErr
		}
		if strings.ContainsRune(o.Name, 0) {
			return drv.SErr
		}
		nc := append(append([]string{}, f.comps...), o.Name)
		if o.Perm&0x80000000 != 0 {
			if err := os.Mkdir(t.path(nc), os.FileMode(o.Perm&0o777)); err != nil {
				return drv.SErr
			}
			i, err := t.stat(nc)
			if err != nil {
				return drv.SErr
			}
			l, err := t.listing(nc)
			if err != nil {
				delete(t.fids, o.Fid)
				return drv.SErr
			}
			t.fids[o.Fid] = &tfid{comps: nc, info: i, kind: 1, list: l, omode: o.Mode}
			return qidS(true)
		}
		file, err := os.OpenFile(t.path(nc), hostFlags(o.Mode)|os.O_CREATE, os.FileMode(o.Perm&0o777))
		if err != nil {
			return drv.SErr
		}
		i, err := t.stat(nc)
		if err != nil {
			file.Close()
			return drv.SErr
		}
		t.fids[o.Fid] = &tfid{comps: nc, info: i, kind: 2, f: file, omode: o.Mode}
		return qidS(false)
	case "read":
		if f == nil || f.kind == 0 {
			return drv.SErr
		}
		if f.kind == 1 {
			return drv.SUnmodelled
		}
		if f.omode&3 == 1 {
			return drv.SErr // opened for writing only
		}
		buf := make([]byte, o.Count)
		n, err := f.f.ReadAt(buf, o.Off)
		if err != nil && err != io.EOF {
			return drv.SErr
		}
		return sx.L(sx.Sym("data"), sx.B(buf[:n]))
	case "write":
		if f == nil || f.kind == 0 {
			return drv.SErr
		}
		if m := f.omode & 3; m != 1 && m != 2 {
			return drv.SErr
		}
		if f.kind == 1 {
			return drv.SErr
		}
		n, err := f.f.WriteAt(o.Data, o.Off)
		if err != nil {
			return drv.SErr
		}
		return sx.L(sx.Sym("count"), sx.I(int64(n)))
	case "stat":
		if f == nil {
			return drv.SErr
		}
		return infoS(f.info)
	case "readdir":
		if f == nil {
			return drv.SErr
		}
		if f.kind != 1 {
			return drv.SUnmodelled
		}
		if f.omode&3 == 1 {
			return drv.SErr
		}
		l := []sx.S{sx.Sym("list")}
		for _, i := range f.list {
			l = append(l, infoS(i))
		}
		f.list = nil
		return sx.List(l)
	case "wstat":
		if f == nil {
			return drv.SErr
		}
		p := t.path(f.comps)
		if o.WMode != ^uint32(0) {
			if err := os.Chmod(p, os.FileMode(o.WMode&0o777)); err != nil {
				return drv.SErr
			}
		}
		if o.UID != "" || o.GID != "" {
			u, err := user.Lookup(o.UID)
			if err != nil {
				return drv.SErr
			}
			g, err := user.LookupGroup(o.GID)
			if err != nil {
				return drv.SErr
			}
			uid, _ := strconv.Atoi(u.Uid)
			gid, _ := strconv.Atoi(g.Gid)
			if err := os.Chown(p, uid, gid); err != nil {
				return drv.SErr
			}
		}
		if o.Name != "" {
			if strings.HasPrefix(o.Name, "/") {
				return drv.SErr
			}
			parent := f.comps
			if len(parent) > 0 {
				parent = parent[:len(parent)-1]
			}
			nc := resolveRel(parent, o.Name)
			for _, c := range nc {
				if strings.Contains(c, "\\") || strings.ContainsRune(c, 0) {
					return drv.SErr
				}
			}
			np := t.path(nc)
			if err := syscall.Rename(p, np); err != nil {
				return drv.SErr
			}
			f.comps, p = nc, np
		}
		if o.WLen != ^uint64(0) {
			if err := os.Truncate(p, int64(o.WLen)); err != nil {
				return drv.SErr
			}
		}
		return drv.SOk
	case "clunk":
		if f == nil {
			return drv.SErr
		}
		delete(t.fids, o.Fid)
		if f.f != nil {
			if err := f.f.Close(); err != nil {
				return drv.SErr
			}
		}
		return drv.SOk
	case "remove":
		if f == nil {
			return drv.SErr
		}
		delete(t.fids, o.Fid)
		if f.f != nil {
			f.f.Close()
		}
		if len(f.comps) == 0 {
			return drv.SErr // the root cannot be removed
		}
		if err := os.Remove(t.path(f.comps)); err != nil {
			return drv.SErr
		}
		return drv.SOk
	}
	panic("bad op")
}

func (t *twin) Close() {
	for _, f := range t.fids {
		if f.f != nil {
			f.f.Close()
		}
	}
}
