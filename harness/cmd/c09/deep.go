package main

import (
	"context"
	"errors"
	"net"
	"os"
	"strconv"
	"strings"
	"sync"
	"sync/atomic"
	"time"

	p9p "github.com/frobnitzem/go-p9p"

	"verifharness/internal/prng"
	"verifharness/internal/sx"
)

// pattern: the payload of call id - every byte depends on the id and on its
// position, so a payload that was overwritten (wholly or in part) by another
// call's data cannot pass for the right one.
func pattern(id uint32, n int) []byte {
	b := make([]byte, n)
	x := id*2654435761 + 0x9e3779b9
	for i := range b {
		x ^= x << 13
		x ^= x >> 17
		x ^= x << 5
		b[i] = byte(x>>11) ^ byte(i)
	}
	return b
}

// deepCall builds call number i of a concurrent set: simple arguments that
// always reach the session, and a result that belongs to this call only.
func deepCall(r *prng.R, i int, fid p9p.Fid, msize int) *call {
	id := uint32(fid)
	switch i % 4 {
	case 0:
		c := &call{method: "Open", fid: fid, mode: p9p.Flag(i)}
		c.sc = script{kind: "ok", qid: p9p.Qid{Type: p9p.QType(i), Version: id, Path: uint64(id) << 7}, iounit: id ^ 0x5a5a}
		return c
	case 1:
		n := r.Range(1, 600)
		if n > msize-11 {
			n = msize - 11
		}
		c := &call{method: "Read", fid: fid, plen: n, off: int64(id)}
		c.sc = script{kind: "read", data: pattern(id, r.Range(1, n))}
		return c
	case 2:
		d := pattern(id^0xffff, r.Range(0, 200))
		c := &call{method: "Write", fid: fid, data: d, off: int64(id) << 20}
		c.sc = script{kind: "ok", n: len(d)}
		return c
	}
	c := &call{method: "Walk", fid: fid, fid2: fid + 1, names: []string{"n" + strconv.Itoa(i)}}
	c.sc = script{kind: "ok", qids: []p9p.Qid{{Type: 1, Version: id, Path: uint64(i)}}}
	return c
}

// childBarrier: N concurrent callers on ONE client session; every call of the
// served session returns only once all N calls have arrived at it.  Invoked
// directly by N goroutines such a session completes, so over the connection
// all N must complete too, each with its own result.  "Stuck" is declared only
// when neither the number of calls that reached the session nor the number of
// callers that returned has changed for a long time.
func childBarrier() {
	seed, _ := strconv.ParseUint(os.Getenv("C09_SEED"), 10, 64)
	stall := 20 * time.Second
	if v, err := strconv.Atoi(os.Getenv("C09_STALL_S")); err == nil && v > 0 {
		stall = time.Duration(v) * time.Second
	}
	r := prng.New(seed)
	stuck := 0
	for ri, ns := range strings.Split(os.Getenv("C09_NS"), ",") {
		if stuck > 0 {
			break
		}
		n, err := strconv.Atoi(ns)
		if err != nil || n <= 0 {
			continue
		}
		connKind := []string{"buf", "pipe"}[ri%2]
		msize := r.Pick(1024, 8192, 65536)
		l, err := dial(connKind, msize, msize)
		if err != nil {
			emit("F", "setup.negotiation."+connKind, "could not establish a session: "+err.Error(), "(setup)", "{}")
			continue
		}
		set := make([]*call, n)
		byFid := map[p9p.Fid]*call{}
		for i := range set {
			fid := p9p.Fid(1000 + 3*i)
			set[i] = deepCall(r, i, fid, msize)
			byFid[fid] = set[i]
		}
		b := &barrier{want: n, ch: make(chan struct{}), hard: true}
		l.S.mu.Lock()
		l.S.byFid, l.S.barrier = byFid, b
		l.S.mu.Unlock()
		var returned int64
		var wg sync.WaitGroup
		for _, c := range set {
			wg.Add(1)
			go func(c *call) {
				defer wg.Done()
				c.invoke(l.ctx, l.cs)
				atomic.AddInt64(&returned, 1)
			}(c)
		}
		done := make(chan struct{})
		go func() { wg.Wait(); close(done) }()
		lastA, lastR, lastChange := -1, int64(-1), time.Now()
		verdict := ""
	watch:
		for {
			select {
			case <-done:
				verdict = "complete"
				break watch
			case <-time.After(100 * time.Millisecond):
			}
			a, rr := b.count(), atomic.LoadInt64(&returned)
			if a != lastA || rr != lastR {
				lastA, lastR, lastChange = a, rr, time.Now()
				continue
			}
			if time.Since(lastChange) > stall {
				verdict = "stuck"
				break watch
			}
		}
		cs := "(barrier " + strconv.Itoa(n) + " " + verdict + ")"
		if verdict == "complete" {
			emit("C", cs, "ok", "barrier-"+connKind+"-complete", "1")
			for _, c := range set {
				report(c, msize, msize, connKind, true)
			}
		} else {
			stuck++
			dump := stacks()
			emit("C", cs, "ok", "barrier-"+connKind+"-stuck", "1")
			emit("F", "flow.incomplete.barrier-session",
				strconv.Itoa(n)+" concurrent calls on one session, served by a session whose calls return only once all "+strconv.Itoa(n)+
					" have arrived (it completes when called directly by that many goroutines): only "+strconv.Itoa(lastA)+
					" calls ever reached the served session and "+strconv.Itoa(int(lastR))+" callers returned; no progress for "+stall.String(),
				cs, detail("callers", n, "arrived_at_session", lastA, "returned", lastR, "conn", connKind, "msize", msize, "stacks", trim(dump, 8000)))
			b.release()
		}
		l.close()
		<-waitOr(done, 40*time.Second)
	}
	emit("X", "barrier_rounds_stuck", strconv.Itoa(stuck))
	emit("D")
}

// slowConn delays the client's reads a little, so that replies queue up on the
// server side (in the serve loop and its writer) while further requests are
// being handled.
type slowConn struct {
	net.Conn
	n uint32
}

func (c *slowConn) Read(p []byte) (int, error) {
	if atomic.AddUint32(&c.n, 1)%2 == 0 {
		time.Sleep(300 * time.Microsecond)
	}
	return c.Conn.Read(p)
}

// childReads: many pipelined and concurrent Reads on one session (different
// fids and offsets, sizes 1..msize-11); the served session answers each with a
// payload that depends on the call's identity; every caller checks its WHOLE
// payload.  The client drains the connection slowly, so replies are still
// queued in the server while later reads are being handled.
func childReads() {
	seed, _ := strconv.ParseUint(os.Getenv("C09_SEED"), 10, 64)
	rounds, _ := strconv.Atoi(os.Getenv("C09_ROUNDS"))
	r := prng.New(seed)
	bad := 0
	for round := 0; round < rounds && bad == 0; round++ {
		connKind := []string{"pipe", "buf"}[round%2]
		msize := r.Pick(256, 1024, 1024, 4096)
		callers := r.Pick(16, 32, 64)
		perCaller := r.Pick(10, 20, 30)
		l, err := dialWith(connKind, msize, msize, func(c net.Conn) net.Conn { return &slowConn{Conn: c} })
		if err != nil {
			emit("F", "setup.negotiation."+connKind, "could not establish a session: "+err.Error(), "(setup)", "{}")
			continue
		}
		byFid := map[p9p.Fid]*call{}
		sets := make([][]*call, callers)
		for ci := range sets {
			for k := 0; k < perCaller; k++ {
				fid := p9p.Fid(ci*4096 + k + 1)
				id := uint32(fid)*7 + uint32(round)
				var plen int
				switch r.Intn(4) {
				case 0:
					plen = msize - 11
				case 1:
					plen = r.Range(1, 16)
				default:
					plen = r.Range(1, msize-11)
				}
				c := &call{method: "Read", fid: fid, plen: plen, off: int64(id)}
				dl := plen
				if r.Chance(1, 3) {
					dl = r.Range(1, plen)
				}
				c.sc = script{kind: "read", data: pattern(id, dl)}
				byFid[fid] = c
				sets[ci] = append(sets[ci], c)
			}
		}
		l.S.mu.Lock()
		l.S.byFid = byFid
		l.S.mu.Unlock()
		var wg sync.WaitGroup
		for ci := range sets {
			wg.Add(1)
			go func(cs []*call) {
				defer wg.Done()
				for _, c := range cs {
					c.invoke(l.ctx, l.cs)
				}
			}(sets[ci])
		}
		done := make(chan struct{})
		go func() { wg.Wait(); close(done) }()
		select {
		case <-done:
		case <-time.After(3 * callTimeout):
			emit("F", "flow.no-return.pipelined-reads."+connKind, "pipelined concurrent reads did not complete", "(reads)", detail("stacks", trim(stacks(), 6000)))
			l.close()
			continue
		}
		for _, cs := range sets {
			for _, c := range cs {
				c.mu.Lock()
				got := c.got
				c.mu.Unlock()
				_, egot := c.expect(msize, msize)
				if got == nil || (egot != nil && sx.String(got) != sx.String(egot)) {
					bad++
				}
				report(c, msize, msize, connKind+"-pipelined", true)
			}
		}
		l.close()
	}
	emit("X", "pipelined_read_payload_failures", strconv.Itoa(bad))
	emit("D")
}

// childCtx: calls on ONE session under contexts of different kinds, with real
// time passing between them: no deadline; a deadline that is still far away
// when the call completes; then - after that deadline has passed - no
// deadline again; a cancelled context; a deadline that expires while the
// session is still working on the call; and again no deadline.  A call's
// context belongs to that call: every call made without a deadline must
// complete with the session's result whatever contexts earlier calls had.
// Both connection kinds honour write deadlines.
func childCtx() {
	seed, _ := strconv.ParseUint(os.Getenv("C09_SEED"), 10, 64)
	rounds, _ := strconv.Atoi(os.Getenv("C09_ROUNDS"))
	r := prng.New(seed)
	bad := 0
	for round := 0; round < rounds; round++ {
		connKind := []string{"pipe", "buf"}[round%2]
		msize := r.Pick(1024, 8192, 65536)
		l, err := dial(connKind, msize, msize)
		if err != nil {
			emit("F", "setup.negotiation."+connKind, "could not establish a session: "+err.Error(), "(setup)", "{}")
			continue
		}
		next := 0
		byFid := map[p9p.Fid]*call{} // by fid, not "the call in flight": an abandoned call may reach the session late
		l.S.mu.Lock()
		l.S.byFid = byFid
		l.S.mu.Unlock()
		mk := func() *call {
			next++
			fid := p9p.Fid(7000 + 3*next)
			c := deepCall(r, r.Intn(4), fid, msize)
			l.S.mu.Lock()
			byFid[fid] = c
			l.S.mu.Unlock()
			return c
		}
		// run: issue one call under ctx; mustComplete says the property determines the result
		run := func(label string, ctx context.Context, c *call, mustComplete bool) bool {
			done := make(chan struct{})
			go func() { c.invoke(ctx, l.cs); close(done) }()
			select {
			case <-done:
			case <-time.After(callTimeout):
				bad++
				emit("F", "flow.no-return.ctx-sequence."+connKind, "a call in a sequence of calls under different contexts did not return ("+label+")",
					sx.String(c.caseSexp(msize, msize)), detail("step", label, "stacks", trim(stacks(), 6000)))
				return false
			}
			if !mustComplete {
				return true
			}
			c.mu.Lock()
			gerr := c.gotErr
			got := c.got
			c.mu.Unlock()
			_, egot := c.expect(msize, msize)
			if egot != nil && (got == nil || sx.String(got) != sx.String(egot)) {
				bad++
				var ne net.Error
				if gerr != nil && (errors.As(gerr, &ne) || strings.Contains(gerr.Error(), "timeout")) {
					emit("F", "ctx.earlier-deadline-leaks-into-later-call."+connKind,
						"a call made WITHOUT a deadline failed with an I/O time-out after an earlier call's context deadline had passed ("+label+"); the served session would have answered",
						sx.String(c.caseSexp(msize, msize)), detail("step", label, "error", gerr.Error(), "conn", connKind))
				}
			}
			report(c, msize, msize, connKind+"-ctxseq", false)
			return true
		}
		bg := l.ctx
		ok := run("1: no deadline", bg, mk(), true)
		// 2: a deadline far enough away that the call completes well before it, even on a loaded box
		dl := time.Now().Add(2 * time.Second)
		ctx2, cancel2 := context.WithDeadline(bg, dl)
		if ok {
			c2 := mk()
			ok = run("2: deadline in 2s", ctx2, c2, false)
			c2.mu.Lock()
			e2 := c2.gotErr
			c2.mu.Unlock()
			if ok && e2 == nil {
				report(c2, msize, msize, connKind+"-ctxseq", false)
			}
		}
		if ok {
			time.Sleep(time.Until(dl) + 300*time.Millisecond)
			ok = run("3: no deadline, after the deadline of call 2 has passed", bg, mk(), true)
		}
		cancel2()
		if ok {
			ctx4, cancel4 := context.WithCancel(bg)
			cancel4()
			ok = run("4: cancelled context", ctx4, mk(), false)
		}
		if ok {
			ok = run("5: no deadline, after a cancelled call", bg, mk(), true)
		}
		if ok {
			c6 := mk()
			c6.sc.delay = 600 * time.Millisecond
			ctx6, cancel6 := context.WithTimeout(bg, 150*time.Millisecond)
			ok = run("6: deadline expires while the session is working", ctx6, c6, false)
			cancel6()
			time.Sleep(700 * time.Millisecond) // let the late reply of call 6 arrive
		}
		if ok {
			run("7: no deadline, after a call that timed out", bg, mk(), true)
			run("8: no deadline", bg, mk(), true)
		}
		l.close()
	}
	emit("X", "ctx_sequence_failures", strconv.Itoa(bad))
	emit("D")
}
