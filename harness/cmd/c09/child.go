package main

import (
	"context"
	"encoding/json"
	"errors"
	"fmt"
	"io"
	"log"
	"net"
	"os"
	"runtime"
	"strconv"
	"strings"
	"sync"
	"sync/atomic"
	"time"

	p9p "github.com/frobnitzem/go-p9p"

	"verifharness/internal/prng"
	"verifharness/internal/sx"
)

// ------------------------------------------------------------ connections

// bufConn: one end of an in-memory duplex connection that buffers without
// bound: writes never block, reads block until data or close.
type bufHalf struct {
	mu     sync.Mutex
	cond   *sync.Cond
	data   []byte
	closed bool
	wdl    time.Time // write deadline of the end that writes into this half (honoured like net.Pipe does)
}

func newHalf() *bufHalf { h := &bufHalf{}; h.cond = sync.NewCond(&h.mu); return h }

type bufConn struct{ rd, wr *bufHalf }

func newBufPair() (net.Conn, net.Conn) {
	a, b := newHalf(), newHalf()
	return &bufConn{rd: a, wr: b}, &bufConn{rd: b, wr: a}
}

func (c *bufConn) Read(p []byte) (int, error) {
	h := c.rd
	h.mu.Lock()
	defer h.mu.Unlock()
	for len(h.data) == 0 && !h.closed {
		h.cond.Wait()
	}
	if len(h.data) == 0 {
		return 0, io.EOF
	}
	n := copy(p, h.data)
	h.data = h.data[n:]
	return n, nil
}

func (c *bufConn) Write(p []byte) (int, error) {
	h := c.wr
	h.mu.Lock()
	defer h.mu.Unlock()
	if h.closed {
		return 0, io.ErrClosedPipe
	}
	if !h.wdl.IsZero() && !time.Now().Before(h.wdl) {
		return 0, os.ErrDeadlineExceeded
	}
	h.data = append(h.data, p...)
	h.cond.Broadcast()
	return len(p), nil
}

func (c *bufConn) Close() error {
	for _, h := range []*bufHalf{c.rd, c.wr} {
		h.mu.Lock()
		h.closed = true
		h.cond.Broadcast()
		h.mu.Unlock()
	}
	return nil
}

type dummyAddr struct{}

func (dummyAddr) Network() string { return "mem" }
func (dummyAddr) String() string  { return "mem" }

func (c *bufConn) LocalAddr() net.Addr               { return dummyAddr{} }
func (c *bufConn) RemoteAddr() net.Addr              { return dummyAddr{} }
func (c *bufConn) SetDeadline(t time.Time) error     { return c.SetWriteDeadline(t) }
func (c *bufConn) SetReadDeadline(t time.Time) error { return nil } // reads only ever wait for data
func (c *bufConn) SetWriteDeadline(t time.Time) error {
	c.wr.mu.Lock()
	c.wr.wdl = t
	c.wr.mu.Unlock()
	return nil
}

// patchConn rewrites the msize field of the first frame the client writes (its
// Tversion: size[4] type[1] tag[2] msize[4] …), i.e. it plays a client that
// proposes a smaller msize; both ends then negotiate down to it.
type patchConn struct {
	net.Conn
	msize uint32
	off   int
}

func (c *patchConn) Write(p []byte) (int, error) {
	if c.off < 11 {
		q := append([]byte{}, p...)
		for i := range q {
			pos := c.off + i
			if pos >= 7 && pos < 11 {
				q[i] = byte(c.msize >> (8 * uint(pos-7)))
			}
		}
		c.off += len(p)
		return c.Conn.Write(q)
	}
	return c.Conn.Write(p)
}

// ------------------------------------------------------------ sexp helpers

func sStr(s string) sx.S   { return sx.L(sx.Sym("s"), sx.Str(s)) }
func sBytes(b []byte) sx.S { return sx.L(sx.Sym("b"), sx.B(b)) }
func sBuf(n int) sx.S      { return sx.L(sx.Sym("buf"), sx.I(int64(n))) }

// chunks: long byte strings are written into CASES as several atoms of at most
// 256 bytes (the Gallina parser reverses each atom with the standard library's
// quadratic rev); the model concatenates them.  Observations use one atom.
func chunks(head string, b []byte) sx.S {
	out := []sx.S{sx.Sym(head)}
	for len(b) > 256 {
		out = append(out, sx.B(b[:256]))
		b = b[256:]
	}
	out = append(out, sx.B(b))
	return sx.List(out)
}
func sStrs(l []string) sx.S {
	out := []sx.S{sx.Sym("ss")}
	for _, s := range l {
		out = append(out, sx.Str(s))
	}
	return sx.List(out)
}
func sQid(q p9p.Qid) sx.S {
	return sx.L(sx.Sym("q"), sx.U(uint64(q.Type)), sx.U(uint64(q.Version)), sx.U(q.Path))
}
func sQids(l []p9p.Qid) sx.S {
	out := []sx.S{sx.Sym("qs")}
	for _, q := range l {
		out = append(out, sQid(q))
	}
	return sx.List(out)
}
func sTime(t time.Time) sx.S {
	return sx.L(sx.Sym("t"), sx.I(t.Unix()), sx.I(int64(t.Nanosecond())))
}
func sDir(d p9p.Dir) sx.S {
	return sx.L(sx.Sym("dir"), sx.U(uint64(d.Type)), sx.U(uint64(d.Dev)), sQid(d.Qid), sx.U(uint64(d.Mode)),
		sTime(d.AccessTime), sTime(d.ModTime), sx.U(d.Length), sx.Str(d.Name), sx.Str(d.UID), sx.Str(d.GID), sx.Str(d.MUID))
}

func sErr(err error) sx.S {
	switch {
	case err == nil:
		return sx.Sym("nil")
	case err == io.EOF:
		return sx.Sym("eof")
	case err == io.ErrShortWrite:
		return sx.Sym("shortwrite")
	case err == p9p.ErrClosed:
		return sx.Sym("closed")
	}
	switch e := err.(type) {
	case p9p.MessageRerror:
		return sx.L(sx.Sym("rerror"), sx.Str(e.Ename))
	case *p9p.MessageRerror:
		return sx.L(sx.Sym("rerror"), sx.Str(e.Ename))
	}
	if n := p9p.Overflow(err); n > 0 {
		return sx.L(sx.Sym("overflow"), sx.I(int64(n)))
	}
	return sx.L(sx.Sym("other"), sx.Str(err.Error()))
}

func sGot(vals []sx.S, out []byte, err error) sx.S {
	return sx.L(sx.Sym("got"), sx.List(vals), sx.B(out), sErr(err))
}

// ------------------------------------------------------------ scripts and calls

type script struct {
	delay  time.Duration // the session call takes this long
	kind   string        // ok | read | rerror | prerror | plain
	text   string
	qid    p9p.Qid
	qids   []p9p.Qid
	n      int
	iounit uint32
	dir    p9p.Dir
	data   []byte
}

func (s *script) err() error {
	switch s.kind {
	case "rerror":
		return p9p.MessageRerror{Ename: s.text}
	case "prerror":
		return &p9p.MessageRerror{Ename: s.text}
	case "plain":
		return errors.New(s.text)
	}
	return nil
}

type call struct {
	method string
	fid    p9p.Fid // first fid parameter: the key of the call in concurrent sets
	fid2   p9p.Fid // Attach afid / Walk newfid
	s1, s2 string  // uname, aname / name
	names  []string
	plen   int    // Read: len(p)
	data   []byte // Write: p
	off    int64
	mode   p9p.Flag
	perm   uint32
	dir    p9p.Dir
	sc     script

	// observations
	mu      sync.Mutex
	recv    sx.S // what S received (nil: S was not called)
	recvCnt int
	got     sx.S
	gotErr  error
}

func (c *call) argsSexp() sx.S {
	f := func(x p9p.Fid) sx.S { return sx.U(uint64(x)) }
	switch c.method {
	case "Auth":
		return sx.L(f(c.fid), sStr(c.s1), sStr(c.s2))
	case "Attach":
		return sx.L(f(c.fid), f(c.fid2), sStr(c.s1), sStr(c.s2))
	case "Clunk", "Remove", "Stat":
		return sx.L(f(c.fid))
	case "Walk":
		return sx.L(f(c.fid), f(c.fid2), sStrs(c.names))
	case "Read":
		return sx.L(f(c.fid), sBuf(c.plen), sx.I(c.off))
	case "Write":
		return sx.L(f(c.fid), chunks("b", c.data), sx.I(c.off))
	case "Open":
		return sx.L(f(c.fid), sx.U(uint64(c.mode)))
	case "Create":
		return sx.L(f(c.fid), sStr(c.s1), sx.U(uint64(c.perm)), sx.U(uint64(c.mode)))
	case "WStat":
		return sx.L(f(c.fid), sDir(c.dir))
	}
	panic("method " + c.method)
}

func (c *call) scriptSexp() sx.S {
	s := &c.sc
	switch s.kind {
	case "rerror", "prerror", "plain":
		return sx.L(sx.Sym(s.kind), sx.Str(s.text))
	case "read":
		return chunks("read", s.data)
	}
	switch c.method {
	case "Auth", "Attach":
		return sx.L(sx.Sym("ok"), sQid(s.qid))
	case "Walk":
		return sx.L(sx.Sym("ok"), sQids(s.qids))
	case "Write":
		return sx.L(sx.Sym("ok"), sx.I(int64(s.n)))
	case "Open", "Create":
		return sx.L(sx.Sym("ok"), sQid(s.qid), sx.U(uint64(s.iounit)))
	case "Stat":
		return sx.L(sx.Sym("ok"), sDir(s.dir))
	}
	return sx.L(sx.Sym("ok"))
}

func (c *call) caseSexp(msize, smsize int) sx.S {
	return sx.L(sx.Sym("call"), sx.I(int64(msize)), sx.I(int64(smsize)), sx.Sym(c.method), c.argsSexp(), c.scriptSexp())
}

// invoke performs the call on the client session and records what the caller got.
func (c *call) invoke(ctx context.Context, cs p9p.Session) {
	var vals []sx.S
	var out []byte
	var err error
	switch c.method {
	case "Auth":
		var q p9p.Qid
		q, err = cs.Auth(ctx, c.fid, c.s1, c.s2)
		vals = []sx.S{sQid(q)}
	case "Attach":
		var q p9p.Qid
		q, err = cs.Attach(ctx, c.fid, c.fid2, c.s1, c.s2)
		vals = []sx.S{sQid(q)}
	case "Clunk":
		err = cs.Clunk(ctx, c.fid)
	case "Remove":
		err = cs.Remove(ctx, c.fid)
	case "Walk":
		var qs []p9p.Qid
		qs, err = cs.Walk(ctx, c.fid, c.fid2, c.names...)
		vals = []sx.S{sQids(qs)}
	case "Read":
		p := make([]byte, c.plen)
		var n int
		n, err = cs.Read(ctx, c.fid, p, c.off)
		vals = []sx.S{sx.I(int64(n))}
		if n >= 0 && n <= len(p) {
			out = p[:n]
		}
	case "Write":
		var n int
		n, err = cs.Write(ctx, c.fid, c.data, c.off)
		vals = []sx.S{sx.I(int64(n))}
	case "Open":
		var q p9p.Qid
		var io uint32
		q, io, err = cs.Open(ctx, c.fid, c.mode)
		vals = []sx.S{sQid(q), sx.U(uint64(io))}
	case "Create":
		var q p9p.Qid
		var io uint32
		q, io, err = cs.Create(ctx, c.fid, c.s1, c.perm, c.mode)
		vals = []sx.S{sQid(q), sx.U(uint64(io))}
	case "Stat":
		var d p9p.Dir
		d, err = cs.Stat(ctx, c.fid)
		vals = []sx.S{sDir(d)}
	case "WStat":
		err = cs.WStat(ctx, c.fid, c.dir)
	}
	c.mu.Lock()
	c.got = sGot(vals, out, err)
	c.gotErr = err
	c.mu.Unlock()
}

// ------------------------------------------------------------ the recording session S

type recS struct {
	smsize  int
	mu      sync.Mutex
	byFid   map[p9p.Fid]*call // concurrent sets: the call each fid belongs to
	cur     *call             // sequences: the call in flight
	stray   int               // calls S received that match no issued call
	barrier *barrier
}

type barrier struct {
	mu      sync.Mutex
	want    int
	arrived int
	ch      chan struct{}
	hard    bool // no time-out: a call returns only once all [want] calls have arrived (or release() was called)
	once    sync.Once
}

func (b *barrier) release() { b.once.Do(func() { close(b.ch) }) }

func (b *barrier) count() int {
	b.mu.Lock()
	defer b.mu.Unlock()
	return b.arrived
}

func (b *barrier) wait() {
	if b == nil {
		return
	}
	b.mu.Lock()
	b.arrived++
	full := b.arrived == b.want
	b.mu.Unlock()
	if full {
		b.release()
	}
	if b.hard {
		<-b.ch
		return
	}
	select {
	case <-b.ch:
	case <-time.After(150 * time.Millisecond): // only raises concurrency; correctness never depends on it
	}
}

func (s *recS) entry(fid p9p.Fid, method string, recv sx.S) *call {
	s.mu.Lock()
	var c *call
	if s.byFid != nil {
		c = s.byFid[fid]
	} else {
		c = s.cur
	}
	if c == nil || c.method != method {
		s.stray++
		s.mu.Unlock()
		return nil
	}
	s.mu.Unlock()
	c.mu.Lock()
	c.recv = recv
	c.recvCnt++
	c.mu.Unlock()
	s.barrier.wait()
	if c.sc.delay > 0 {
		time.Sleep(c.sc.delay)
	}
	return c
}

func fidS(f p9p.Fid) sx.S { return sx.U(uint64(f)) }

func recvS(method string, args ...sx.S) sx.S {
	return sx.List(append([]sx.S{sx.Sym("recv"), sx.Sym(method)}, args...))
}

var errStray = errors.New("harness: call matches no issued call")

func (s *recS) Auth(ctx context.Context, afid p9p.Fid, uname, aname string) (p9p.Qid, error) {
	c := s.entry(afid, "Auth", recvS("Auth", fidS(afid), sStr(uname), sStr(aname)))
	if c == nil {
		return p9p.Qid{}, errStray
	}
	return c.sc.qid, c.sc.err()
}
func (s *recS) Attach(ctx context.Context, fid, afid p9p.Fid, uname, aname string) (p9p.Qid, error) {
	c := s.entry(fid, "Attach", recvS("Attach", fidS(fid), fidS(afid), sStr(uname), sStr(aname)))
	if c == nil {
		return p9p.Qid{}, errStray
	}
	return c.sc.qid, c.sc.err()
}
func (s *recS) Clunk(ctx context.Context, fid p9p.Fid) error {
	c := s.entry(fid, "Clunk", recvS("Clunk", fidS(fid)))
	if c == nil {
		return errStray
	}
	return c.sc.err()
}
func (s *recS) Remove(ctx context.Context, fid p9p.Fid) error {
	c := s.entry(fid, "Remove", recvS("Remove", fidS(fid)))
	if c == nil {
		return errStray
	}
	return c.sc.err()
}
func (s *recS) Walk(ctx context.Context, fid p9p.Fid, newfid p9p.Fid, names ...string) ([]p9p.Qid, error) {
	c := s.entry(fid, "Walk", recvS("Walk", fidS(fid), fidS(newfid), sStrs(names)))
	if c == nil {
		return nil, errStray
	}
	return c.sc.qids, c.sc.err()
}
func (s *recS) Read(ctx context.Context, fid p9p.Fid, p []byte, offset int64) (int, error) {
	c := s.entry(fid, "Read", recvS("Read", fidS(fid), sBuf(len(p)), sx.I(offset)))
	if c == nil {
		return 0, errStray
	}
	if err := c.sc.err(); err != nil {
		return 0, err
	}
	return copy(p, c.sc.data), nil
}
func (s *recS) Write(ctx context.Context, fid p9p.Fid, p []byte, offset int64) (int, error) {
	c := s.entry(fid, "Write", recvS("Write", fidS(fid), sBytes(p), sx.I(offset)))
	if c == nil {
		return 0, errStray
	}
	return c.sc.n, c.sc.err()
}
func (s *recS) Open(ctx context.Context, fid p9p.Fid, mode p9p.Flag) (p9p.Qid, uint32, error) {
	c := s.entry(fid, "Open", recvS("Open", fidS(fid), sx.U(uint64(mode))))
	if c == nil {
		return p9p.Qid{}, 0, errStray
	}
	return c.sc.qid, c.sc.iounit, c.sc.err()
}
func (s *recS) Create(ctx context.Context, parent p9p.Fid, name string, perm uint32, mode p9p.Flag) (p9p.Qid, uint32, error) {
	c := s.entry(parent, "Create", recvS("Create", fidS(parent), sStr(name), sx.U(uint64(perm)), sx.U(uint64(mode))))
	if c == nil {
		return p9p.Qid{}, 0, errStray
	}
	return c.sc.qid, c.sc.iounit, c.sc.err()
}
func (s *recS) Stat(ctx context.Context, fid p9p.Fid) (p9p.Dir, error) {
	c := s.entry(fid, "Stat", recvS("Stat", fidS(fid)))
	if c == nil {
		return p9p.Dir{}, errStray
	}
	return c.sc.dir, c.sc.err()
}
func (s *recS) WStat(ctx context.Context, fid p9p.Fid, dir p9p.Dir) error {
	c := s.entry(fid, "WStat", recvS("WStat", fidS(fid), sDir(dir)))
	if c == nil {
		return errStray
	}
	return c.sc.err()
}
func (s *recS) Version() (int, string) { return s.smsize, p9p.DefaultVersion }
func (s *recS) Stop(err error) error   { return err }

// ------------------------------------------------------------ generation

var methods = []string{"Auth", "Attach", "Clunk", "Remove", "Walk", "Read", "Write", "Open", "Create", "Stat", "WStat"}

func genFid(r *prng.R) p9p.Fid {
	switch r.Intn(6) {
	case 0:
		return 0
	case 1:
		return p9p.NOFID
	case 2:
		return p9p.NOFID - 1
	case 3:
		return 1
	}
	return p9p.Fid(r.U64())
}

func genName(r *prng.R, max int) string {
	switch r.Intn(8) {
	case 0:
		return ""
	case 1:
		return "a"
	case 2:
		return string(r.Bytes(r.Range(1, 6))) // arbitrary bytes, mostly not UTF-8
	case 3:
		if max > 0 {
			return strings.Repeat("n", r.Range(max/2, max))
		}
		return ""
	case 4:
		return "日本語/..\x00\xff"
	}
	b := make([]byte, r.Range(1, 12))
	for i := range b {
		b[i] = "abcdefghijklmnopqrstuvwxyz._-"[r.Intn(29)]
	}
	return string(b)
}

func genOff(r *prng.R) int64 {
	switch r.Intn(10) {
	case 0:
		return 0
	case 1:
		return 1
	case 2:
		return 1 << 31
	case 3:
		return 1 << 32
	case 4:
		return 1<<32 + 1
	case 5:
		return 1<<63 - 1
	case 6:
		return -1 << 63
	case 7:
		return -1
	}
	return int64(r.U64())
}

func genQid(r *prng.R) p9p.Qid {
	q := p9p.Qid{Type: p9p.QType(r.U64()), Version: uint32(r.U64()), Path: r.U64()}
	if r.Chance(1, 5) {
		q = p9p.Qid{Type: p9p.QTDIR, Version: ^uint32(0), Path: ^uint64(0)}
	}
	return q
}

func genTime(r *prng.R) time.Time {
	var sec int64
	switch r.Intn(12) {
	case 0:
		sec = 0
	case 1:
		sec = 1
	case 2:
		sec = 1<<31 - 1
	case 3:
		sec = 1 << 31
	case 4:
		sec = 1<<32 - 1
	case 5:
		sec = 1 << 32
	case 6:
		sec = 1<<32 + 5
	case 7:
		sec = -1
	case 8:
		return time.Time{}
	case 9:
		sec = 1 << 40
	default:
		sec = int64(r.U64() % (1 << 33))
	}
	var nsec int64
	switch r.Intn(4) {
	case 0:
		nsec = 0
	case 1:
		nsec = 999999999
	case 2:
		nsec = 1
	default:
		nsec = int64(r.Intn(1000000000))
	}
	return time.Unix(sec, nsec)
}

func genDir(r *prng.R, strmax int) p9p.Dir {
	return p9p.Dir{
		Type: uint16(r.U64()), Dev: uint32(r.U64()), Qid: genQid(r), Mode: genPerm(r),
		AccessTime: genTime(r), ModTime: genTime(r), Length: r.PickU64(0, 1, 1<<32, ^uint64(0), r.U64()),
		Name: genName(r, strmax), UID: genName(r, strmax), GID: genName(r, strmax), MUID: genName(r, strmax),
	}
}

func genPerm(r *prng.R) uint32 {
	switch r.Intn(7) {
	case 0:
		return 0
	case 1:
		return 0644
	case 2:
		return p9p.DMDIR | 0755
	case 3:
		return ^uint32(0)
	case 4:
		return p9p.DMAPPEND | p9p.DMEXCL | 0600
	case 5:
		return 0x100 // just above a byte
	}
	return uint32(r.U64())
}

func genMode(r *prng.R) p9p.Flag {
	switch r.Intn(6) {
	case 0:
		return p9p.OREAD
	case 1:
		return p9p.ORDWR | p9p.OTRUNC
	case 2:
		return 0xff
	case 3:
		return p9p.OEXEC | p9p.ORCLOSE
	}
	return p9p.Flag(r.U64())
}

// around returns a size near the threshold t (or an unrelated one).
func around(r *prng.R, t int, far ...int) int {
	switch r.Intn(8) {
	case 0:
		return 0
	case 1:
		return 1
	case 2, 3, 4:
		v := t + r.Range(-3, 3)
		if v < 0 {
			v = 0
		}
		return v
	case 5:
		if len(far) > 0 {
			return far[r.Intn(len(far))]
		}
	}
	if t > 2 {
		return r.Intn(t)
	}
	return r.Intn(8)
}

func frameSize(m p9p.Message) int {
	fc := &p9p.Fcall{Type: m.Type(), Tag: 1, Message: m}
	return 4 + p9p.NewCodec().Size(fc)
}

func min(a, b int) int {
	if a < b {
		return a
	}
	return b
}

func genScript(r *prng.R, c *call, msize, smsize int) {
	s := &c.sc
	// errors: about one call in four
	if r.Chance(1, 4) {
		s.kind = []string{"rerror", "rerror", "plain", "prerror"}[r.Intn(4)]
		max := msize - 9 // Rerror frame: 4+1+2+2+len
		if max > 300 {
			max = 300
		}
		if max < 0 {
			max = 0
		}
		switch r.Intn(5) {
		case 0:
			s.text = ""
		case 1:
			s.text = "file not found"
		case 2:
			s.text = "EOF"
		case 3:
			s.text = strings.Repeat("e", r.Range(0, max))
		default:
			s.text = genName(r, min(max, 40))
		}
		if len(s.text) > max {
			s.text = s.text[:max]
		}
		return
	}
	s.kind = "ok"
	switch c.method {
	case "Auth", "Attach":
		s.qid = genQid(r)
	case "Open", "Create":
		s.qid = genQid(r)
		s.iounit = uint32(r.PickU64(0, 1, uint64(msize), ^uint64(0), r.U64()))
	case "Walk":
		n := r.Intn(18)
		if r.Chance(1, 10) {
			n = r.Range(18, 40)
		}
		for 4+3+2+13*n > msize {
			n--
		}
		for i := 0; i < n; i++ {
			s.qids = append(s.qids, genQid(r))
		}
	case "Read":
		s.kind = "read"
		clip := min(c.plen, msize-11)
		if smsize-11 < clip {
			clip = smsize - 11
		}
		if clip < 0 {
			clip = 0
		}
		s.data = r.Bytes(around(r, clip, clip+100, 2*clip))
	case "Write":
		got := min(len(c.data), msize-23)
		switch r.Intn(8) {
		case 0:
			s.n = 0
		case 1:
			s.n = got - 1
		case 2:
			s.n = got + 5
		case 3:
			s.n = len(c.data)
		case 4:
			s.n = 1<<32 + 3
		case 5:
			s.n = -1
		default:
			s.n = got
		}
	case "Stat":
		for tries := 0; ; tries++ {
			s.dir = genDir(r, min(40, msize/8))
			if frameSize(p9p.MessageRstat{Stat: s.dir}) <= msize {
				break
			}
			if tries > 20 {
				// no Rstat fits this msize: let the session answer with an error instead
				s.kind, s.text, s.dir = "rerror", "stat", p9p.Dir{}
				break
			}
		}
	}
}

func genCall(r *prng.R, msize, smsize int, fid *p9p.Fid) *call {
	c := &call{method: methods[r.Intn(len(methods))]}
	if fid != nil {
		c.fid = *fid
	} else {
		c.fid = genFid(r)
	}
	strmax := min(msize, 400)
	switch c.method {
	case "Auth":
		c.s1, c.s2 = genName(r, strmax), genName(r, strmax)
	case "Attach":
		c.fid2, c.s1, c.s2 = genFid(r), genName(r, strmax), genName(r, strmax)
	case "Walk":
		c.fid2 = genFid(r)
		n := r.Intn(18) // 0..17
		for i := 0; i < n; i++ {
			c.names = append(c.names, genName(r, min(strmax, 60)))
		}
	case "Read":
		c.plen = around(r, msize-11, msize, msize+1, 65536, 100000, 1<<20, smsize-11, smsize)
		if c.plen < 0 {
			c.plen = 0
		}
		c.off = genOff(r)
	case "Write":
		c.data = r.Bytes(around(r, msize-23, msize, 70000))
		c.off = genOff(r)
	case "Open":
		c.mode = genMode(r)
	case "Create":
		c.s1, c.perm, c.mode = genName(r, strmax), genPerm(r), genMode(r)
	case "WStat":
		c.dir = genDir(r, min(strmax, 80))
	}
	genScript(r, c, msize, smsize)
	return c
}

var msizes = []int{24, 25, 40, 64, 65, 100, 128, 256, 1000, 4096, 8192, 65535, 65536}

func genMsize(r *prng.R) int {
	if r.Chance(1, 4) {
		return r.Range(24, 65536)
	}
	return msizes[r.Intn(len(msizes))]
}

func genSmsize(r *prng.R, msize int) int {
	switch r.Intn(9) {
	case 0, 1, 2:
		return msize
	case 3:
		return 0
	case 4:
		return -5
	case 5:
		return r.Range(10, 13)
	case 6:
		return msize - r.Range(1, 40)
	case 7:
		return msize + 100
	}
	return 1 << 20
}

// ------------------------------------------------------------ direct oracles (from the property text)

func clipTime(t time.Time) time.Time {
	return time.Unix(int64(uint32(t.Unix())), 0)
}
func clipDir(d p9p.Dir) p9p.Dir {
	d.AccessTime, d.ModTime = clipTime(d.AccessTime), clipTime(d.ModTime)
	return d
}

// requestFits: does the request frame fit msize (Tread and Twrite always do: they are clipped instead)?
func (c *call) requestFits(msize int) (bool, int) {
	var m p9p.Message
	switch c.method {
	case "Auth":
		m = p9p.MessageTauth{Afid: c.fid, Uname: c.s1, Aname: c.s2}
	case "Attach":
		m = p9p.MessageTattach{Fid: c.fid, Afid: c.fid2, Uname: c.s1, Aname: c.s2}
	case "Walk":
		m = p9p.MessageTwalk{Fid: c.fid, Newfid: c.fid2, Wnames: c.names}
	case "Create":
		m = p9p.MessageTcreate{Fid: c.fid, Name: c.s1, Perm: c.perm, Mode: c.mode}
	case "WStat":
		m = p9p.MessageTwstat{Fid: c.fid, Stat: c.dir}
	default:
		return true, 0
	}
	sz := frameSize(m)
	return sz <= msize, sz - msize
}

// expectations: what S must have received and what the caller must get, by the
// property text: the arguments exactly, except that read and write sizes are
// clipped to msize and timestamps to whole seconds; the results exactly,
// errors by their text.  Returns nil for "not determined by the property"
// (results a Session may not return, e.g. a negative write count).
func (c *call) expect(msize, smsize int) (recv sx.S, got sx.S) {
	zero := func() []sx.S {
		switch c.method {
		case "Auth", "Attach":
			return []sx.S{sQid(p9p.Qid{})}
		case "Walk":
			return []sx.S{sQids(nil)}
		case "Read", "Write":
			return []sx.S{sx.I(0)}
		case "Open", "Create":
			return []sx.S{sQid(p9p.Qid{}), sx.U(0)}
		case "Stat":
			return []sx.S{sDir(p9p.Dir{})}
		}
		return nil
	}
	if c.method == "Walk" && len(c.names) > 16 {
		// MAXWELEM: nothing is sent, ErrWalkLimit is returned
		return nil, sGot(zero(), nil, p9p.ErrWalkLimit)
	}
	if fits, over := c.requestFits(msize); !fits {
		// a request that does not fit msize cannot be sent; the caller is told so
		return nil, sx.L(sx.Sym("got"), sx.List(zero()), sx.B(nil), sx.L(sx.Sym("overflow"), sx.I(int64(over))))
	}
	f := fidS
	rlen := 0
	switch c.method {
	case "Auth":
		recv = recvS("Auth", f(c.fid), sStr(c.s1), sStr(c.s2))
	case "Attach":
		recv = recvS("Attach", f(c.fid), f(c.fid2), sStr(c.s1), sStr(c.s2))
	case "Clunk", "Remove", "Stat":
		recv = recvS(c.method, f(c.fid))
	case "Walk":
		recv = recvS("Walk", f(c.fid), f(c.fid2), sStrs(c.names))
	case "Read":
		rlen = min(c.plen, msize-11)
		if s := smsize - 11; s < rlen {
			rlen = s
		}
		if rlen < 0 {
			rlen = 0
		}
		recv = recvS("Read", f(c.fid), sBuf(rlen), sx.I(c.off))
	case "Write":
		recv = recvS("Write", f(c.fid), sBytes(c.data[:min(len(c.data), msize-23)]), sx.I(c.off))
	case "Open":
		recv = recvS("Open", f(c.fid), sx.U(uint64(c.mode)))
	case "Create":
		recv = recvS("Create", f(c.fid), sStr(c.s1), sx.U(uint64(c.perm)), sx.U(uint64(c.mode)))
	case "WStat":
		recv = recvS("WStat", f(c.fid), sDir(clipDir(c.dir)))
	}
	s := &c.sc
	if e := s.err(); e != nil {
		return recv, sGot(zero(), nil, p9p.MessageRerror{Ename: s.text})
	}
	switch c.method {
	case "Auth", "Attach":
		got = sGot([]sx.S{sQid(s.qid)}, nil, nil)
	case "Walk":
		got = sGot([]sx.S{sQids(s.qids)}, nil, nil)
	case "Read":
		d := s.data[:min(len(s.data), rlen)]
		var e error
		if len(d) == 0 {
			e = io.EOF // 9P: an empty Rread is end of file
		}
		got = sGot([]sx.S{sx.I(int64(len(d)))}, d, e)
	case "Write":
		if s.n < 0 || s.n >= 1<<32 {
			return recv, nil
		}
		var e error
		if s.n < len(c.data) {
			e = io.ErrShortWrite
		}
		got = sGot([]sx.S{sx.I(int64(s.n))}, nil, e)
	case "Open", "Create":
		got = sGot([]sx.S{sQid(s.qid), sx.U(uint64(s.iounit))}, nil, nil)
	case "Stat":
		got = sGot([]sx.S{sDir(clipDir(s.dir))}, nil, nil)
	default:
		got = sGot(nil, nil, nil)
	}
	return recv, got
}

func (c *call) nontrivial(msize, smsize int) (string, bool) {
	switch {
	case c.method == "Walk" && len(c.names) > 16:
		return "walk-limit", true
	case c.sc.kind != "ok" && c.sc.kind != "read":
		return "error-" + c.sc.kind, true
	case c.method == "Read":
		return "read", true
	case c.method == "Write":
		return "write", true
	case c.method == "WStat" || c.method == "Stat":
		return "dir", true
	}
	if fits, _ := c.requestFits(msize); !fits {
		return "request-overflow", true
	}
	return "plain-" + c.method, false
}

func detail(kv ...interface{}) string {
	m := map[string]interface{}{}
	for i := 0; i+1 < len(kv); i += 2 {
		m[fmt.Sprint(kv[i])] = kv[i+1]
	}
	b, _ := json.Marshal(m)
	return string(b)
}

// report prints the case line and applies the oracles.
func report(c *call, msize, smsize int, conn string, concurrent bool) {
	cs := sx.String(c.caseSexp(msize, smsize))
	c.mu.Lock()
	recv, got, cnt := c.recv, c.got, c.recvCnt
	c.mu.Unlock()
	rs := "none"
	if recv != nil {
		rs = sx.String(recv)
	}
	gs := "(no-return)"
	if got != nil {
		gs = sx.String(got)
	}
	branch, nt := c.nontrivial(msize, smsize)
	if concurrent {
		branch, nt = "concurrent-"+branch, true
	}
	emit("C", cs, "("+rs+" "+gs+")", conn+"-"+branch, map[bool]string{true: "1", false: "0"}[nt])
	erecv, egot := c.expect(msize, smsize)
	ers := "none"
	if erecv != nil {
		ers = sx.String(erecv)
	}
	if cnt > 1 {
		emit("F", "args."+c.method+".delivered-more-than-once", "the served session received one call "+strconv.Itoa(cnt)+" times", cs, detail("received", rs))
	}
	if rs != ers {
		emit("F", "args."+c.method, "the served session did not receive the caller's arguments (up to the documented clipping)", cs,
			detail("received", rs, "expected", ers, "conn", conn, "concurrent", concurrent))
	}
	if egot != nil && gs != sx.String(egot) {
		key := "result." + c.method
		if concurrent {
			key = "result.concurrent." + c.method
		}
		emit("F", key, "the caller did not get what the served session returned (errors by text)", cs,
			detail("got", gs, "expected", sx.String(egot), "conn", conn, "concurrent", concurrent))
	}
}

// ------------------------------------------------------------ running sessions

type link struct {
	ctx    context.Context
	cancel context.CancelFunc
	cc, sc net.Conn
	S      *recS
	cs     p9p.Session
	served chan error
}

// dial retries: ServeConn gives the client ONE second to send its Tversion; on a
// loaded machine a late goroutine start must not count as a failure.
func dial(connKind string, msize, smsize int) (l *link, err error) {
	return dialWith(connKind, msize, smsize, nil)
}

func dialWith(connKind string, msize, smsize int, wrap func(net.Conn) net.Conn) (l *link, err error) {
	for try := 0; try < 12; try++ {
		if l, err = dial1(connKind, msize, smsize, wrap); err == nil {
			return l, nil
		}
		time.Sleep(time.Duration(200*(try+1)) * time.Millisecond)
	}
	return nil, err
}

func dial1(connKind string, msize, smsize int, wrap func(net.Conn) net.Conn) (*link, error) {
	l := &link{S: &recS{smsize: smsize}, served: make(chan error, 1)}
	l.ctx, l.cancel = context.WithCancel(context.Background())
	if connKind == "pipe" {
		l.cc, l.sc = net.Pipe()
	} else {
		l.cc, l.sc = newBufPair()
	}
	go func() { l.served <- p9p.ServeConn(l.ctx, l.sc, p9p.SSession(l.S)) }()
	type res struct {
		s   p9p.Session
		err error
	}
	ch := make(chan res, 1)
	go func() {
		var cc net.Conn = &patchConn{Conn: l.cc, msize: uint32(msize)}
		if wrap != nil {
			cc = wrap(cc)
		}
		s, err := p9p.CSession(l.ctx, cc)
		ch <- res{s, err}
	}()
	select {
	case r := <-ch:
		if r.err != nil {
			l.close()
			return nil, r.err
		}
		l.cs = r.s
		if m, _ := l.cs.Version(); m != msize {
			l.close()
			return nil, fmt.Errorf("negotiated msize %d, wanted %d", m, msize)
		}
		return l, nil
	case <-time.After(60 * time.Second):
		l.close()
		return nil, errors.New("version negotiation did not finish within 60s")
	}
}

func (l *link) close() {
	l.cancel()
	l.cc.Close()
	l.sc.Close()
}

const callTimeout = 60 * time.Second // "must happen": generous

// runSet issues the calls (concurrently when len > 1) and waits for all of them.
func runSet(l *link, calls []*call) (ok bool) {
	var wg sync.WaitGroup
	for _, c := range calls {
		wg.Add(1)
		go func(c *call) {
			defer wg.Done()
			c.invoke(l.ctx, l.cs)
		}(c)
	}
	done := make(chan struct{})
	go func() { wg.Wait(); close(done) }()
	select {
	case <-done:
		return true
	case <-time.After(callTimeout):
		return false
	}
}

func stacks() string {
	buf := make([]byte, 1<<20)
	n := runtime.Stack(buf, true)
	return string(buf[:n])
}

// ownerLoopBlockedInWrite: the wait cycle's signature in a goroutine dump: the
// client's owner loop (transport.handle) sits inside WriteFcall.
func ownerLoopBlockedInWrite(dump string) bool {
	for _, g := range strings.Split(dump, "\n\n") {
		if strings.Contains(g, "(*transport).handle(") && strings.Contains(g, "WriteFcall") {
			return true
		}
	}
	return false
}

func childFunc() {
	seed, _ := strconv.ParseUint(os.Getenv("C09_SEED"), 10, 64)
	connKind := os.Getenv("C09_CONN")
	nSeq, _ := strconv.Atoi(os.Getenv("C09_SEQ"))
	nConc, _ := strconv.Atoi(os.Getenv("C09_CONC"))
	r := prng.New(seed)
	calls := 0
	for i := 0; i < nSeq+nConc; i++ {
		concurrent := i >= nSeq
		msize := genMsize(r)
		smsize := genSmsize(r, msize)
		l, err := dial(connKind, msize, smsize)
		if err != nil {
			emit("F", "setup.negotiation."+connKind, "could not establish a session: "+err.Error(), "(setup)", detail("msize", msize))
			continue
		}
		if !concurrent {
			n := r.Range(15, 30)
			for k := 0; k < n; k++ {
				c := genCall(r, msize, smsize, nil)
				l.S.mu.Lock()
				l.S.cur = c
				l.S.mu.Unlock()
				if !runSet(l, []*call{c}) {
					emit("F", "flow.no-return.sequential."+connKind, "a single call in flight did not return within "+callTimeout.String(),
						sx.String(c.caseSexp(msize, smsize)), detail("stacks", trim(stacks(), 6000)))
					break
				}
				report(c, msize, smsize, connKind, false)
				calls++
			}
		} else {
			k := r.Range(2, 12)
			set := make([]*call, 0, k)
			byFid := map[p9p.Fid]*call{}
			for len(set) < k {
				fid := p9p.Fid(r.U64())
				if _, dup := byFid[fid]; dup {
					continue
				}
				c := genCall(r, msize, smsize, &fid)
				byFid[fid] = c
				set = append(set, c)
			}
			l.S.mu.Lock()
			l.S.byFid = byFid
			l.S.barrier = &barrier{want: k, ch: make(chan struct{})}
			l.S.mu.Unlock()
			if !runSet(l, set) {
				emit("F", "flow.no-return.concurrent."+connKind, "a concurrent set of calls over a "+connKind+" connection did not complete within "+callTimeout.String(),
					"(concurrent-set "+strconv.Itoa(k)+")", detail("stacks", trim(stacks(), 6000)))
			} else {
				for _, c := range set {
					report(c, msize, smsize, connKind, true)
					calls++
				}
			}
		}
		l.S.mu.Lock()
		stray := l.S.stray
		l.S.mu.Unlock()
		if stray > 0 {
			emit("F", "args.stray-call", "the served session received a call nobody issued (wrong method or fid)", "(session)", detail("count", stray))
		}
		l.close()
	}
	emit("X", "calls_"+connKind, strconv.Itoa(calls))
	emit("D")
}

func trim(s string, n int) string {
	if len(s) > n {
		return s[:n]
	}
	return s
}

// ------------------------------------------------------------ arbitrary replies

// replyHandler answers every request with the scripted message, whatever its type.
type replyHandler struct {
	mu   sync.Mutex
	next p9p.Message
}

func (h *replyHandler) Handle(ctx context.Context, msg p9p.Message) (p9p.Message, error) {
	h.mu.Lock()
	defer h.mu.Unlock()
	return h.next, nil
}
func (h *replyHandler) Stop(err error) error { return err }

func wInt(w int, v uint64) sx.S { return sx.L(sx.Sym("i"), sx.I(int64(w)), sx.U(v)) }

func canonTime(r *prng.R) time.Time { return time.Unix(int64(uint32(r.U64())), 0) }

func genReply(r *prng.R) (p9p.Message, sx.S) {
	m := func(t p9p.FcallType, fields ...sx.S) sx.S {
		return sx.List(append([]sx.S{sx.Sym("msg"), sx.U(uint64(t))}, fields...))
	}
	switch r.Intn(13) {
	case 0:
		q := genQid(r)
		return p9p.MessageRauth{Qid: q}, m(p9p.Rauth, sQid(q))
	case 1:
		q := genQid(r)
		return p9p.MessageRattach{Qid: q}, m(p9p.Rattach, sQid(q))
	case 2:
		e := genName(r, 30)
		return p9p.MessageRerror{Ename: e}, m(p9p.Rerror, sStr(e))
	case 3:
		var qs []p9p.Qid
		for i := r.Intn(5); i > 0; i-- {
			qs = append(qs, genQid(r))
		}
		return p9p.MessageRwalk{Qids: qs}, m(p9p.Rwalk, sQids(qs))
	case 4:
		q, u := genQid(r), uint32(r.U64())
		return p9p.MessageRopen{Qid: q, IOUnit: u}, m(p9p.Ropen, sQid(q), wInt(4, uint64(u)))
	case 5:
		q, u := genQid(r), uint32(r.U64())
		return p9p.MessageRcreate{Qid: q, IOUnit: u}, m(p9p.Rcreate, sQid(q), wInt(4, uint64(u)))
	case 6:
		d := r.Bytes(r.Pick(0, 1, 5, 40, 300))
		return p9p.MessageRread{Data: d}, m(p9p.Rread, chunks("b", d))
	case 7:
		n := uint32(r.PickU64(0, 1, 5, 40, 300, ^uint64(0), r.U64()))
		return p9p.MessageRwrite{Count: n}, m(p9p.Rwrite, wInt(4, uint64(n)))
	case 8:
		return p9p.MessageRclunk{}, m(p9p.Rclunk)
	case 9:
		return p9p.MessageRremove{}, m(p9p.Rremove)
	case 10:
		d := genDir(r, 20)
		d.AccessTime, d.ModTime = canonTime(r), canonTime(r)
		return p9p.MessageRstat{Stat: d}, m(p9p.Rstat, sDir(d))
	case 11:
		return p9p.MessageRwstat{}, m(p9p.Rwstat)
	}
	return p9p.MessageRflush{}, m(p9p.Rflush)
}

func childReply() {
	seed, _ := strconv.ParseUint(os.Getenv("C09_SEED"), 10, 64)
	n, _ := strconv.Atoi(os.Getenv("C09_N"))
	r := prng.New(seed)
	ctx, cancel := context.WithCancel(context.Background())
	defer cancel()
	cc, sc := newBufPair()
	h := &replyHandler{}
	go p9p.ServeConn(ctx, sc, h)
	cs, err := p9p.CSession(ctx, cc)
	if err != nil {
		emit("F", "setup.negotiation.reply", "could not establish a session: "+err.Error(), "(setup)", "{}")
		emit("D")
		return
	}
	l := &link{ctx: ctx, cancel: cancel, cc: cc, sc: sc, cs: cs}
	for i := 0; i < n; i++ {
		c := genCall(r, 65536, 65536, nil)
		if c.method == "Walk" && len(c.names) > 16 {
			c.names = c.names[:16]
		}
		if c.method == "Read" && c.plen > 400 {
			c.plen = r.Pick(0, 1, 5, 40, 300, 400)
		}
		if c.method == "Write" && len(c.data) > 400 {
			c.data = c.data[:r.Pick(0, 1, 5, 40, 300, 400)]
		}
		var msg p9p.Message
		var ms sx.S
		// half of the time the reply type the method expects, with arbitrary field values
		wantRight := r.Bool()
		for tries := 0; tries < 400; tries++ {
			msg, ms = genReply(r)
			if !wantRight || strings.TrimPrefix(fmt.Sprintf("%T", msg), "p9p.MessageR") == strings.ToLower(c.method) {
				break
			}
		}
		h.mu.Lock()
		h.next = msg
		h.mu.Unlock()
		if !runSet(l, []*call{c}) {
			emit("F", "flow.no-return.reply", "a call answered by a scripted reply did not return", "(reply)", "{}")
			break
		}
		cs := sx.String(sx.L(sx.Sym("reply"), sx.Sym(c.method), c.argsSexp(), ms))
		expectedType := "p9p.MessageR" + strings.ToLower(c.method)
		got := sx.String(c.got)
		branch := "reply-right-type"
		switch {
		case msg.Type() == p9p.Rerror:
			branch = "reply-rerror"
			// oracle: an Rerror is handed to the caller as a MessageRerror with that Ename
			if e, ok := c.gotErr.(p9p.MessageRerror); !ok || e.Ename != msg.(p9p.MessageRerror).Ename {
				emit("F", "result.rerror-not-passed."+c.method, "an Rerror reply did not reach the caller as an error with its Ename", cs, detail("got", got))
			}
		case fmt.Sprintf("%T", msg) != expectedType:
			branch = "reply-wrong-type"
			if c.gotErr != p9p.ErrUnexpectedMsg {
				emit("F", "result.wrong-reply-type-accepted."+c.method, "a reply of the wrong type was not refused with ErrUnexpectedMsg", cs, detail("got", got))
			}
		}
		emit("C", cs, got, branch, "1")
	}
	emit("D")
}

// ------------------------------------------------------------ completion over net.Pipe

func childFlow() {
	seed, _ := strconv.ParseUint(os.Getenv("C09_SEED"), 10, 64)
	rounds, _ := strconv.Atoi(os.Getenv("C09_ROUNDS"))
	r := prng.New(seed)
	stuckRounds, completeRounds := 0, 0
	for round := 0; round < rounds && stuckRounds == 0; round++ {
		callers := r.Pick(8, 8, 12, 16)
		perCaller := r.Pick(1, 20, 50)
		l, err := dial("pipe", 65536, 65536)
		if err != nil {
			emit("F", "setup.negotiation.pipe", "could not establish a session over net.Pipe: "+err.Error(), "(setup)", "{}")
			continue
		}
		byFid := map[p9p.Fid]*call{}
		l.S.mu.Lock()
		l.S.byFid = byFid
		l.S.mu.Unlock()
		var completed, crossed int64
		var wg sync.WaitGroup
		var mapMu sync.Mutex
		for ci := 0; ci < callers; ci++ {
			wg.Add(1)
			go func(ci int) {
				defer wg.Done()
				for k := 0; k < perCaller; k++ {
					fid := p9p.Fid(ci*1000 + k)
					c := &call{method: "Open", fid: fid, mode: p9p.Flag(k)}
					c.sc = script{kind: "ok", qid: p9p.Qid{Path: uint64(fid), Version: uint32(ci)}, iounit: uint32(fid) + 7}
					mapMu.Lock()
					l.S.mu.Lock()
					byFid[fid] = c
					l.S.mu.Unlock()
					mapMu.Unlock()
					q, io, err := l.cs.Open(l.ctx, fid, c.mode)
					if err != nil {
						return // a stuck connection is torn down below; callers then see errors
					}
					if q.Path != uint64(fid) || io != uint32(fid)+7 {
						atomic.AddInt64(&crossed, 1)
					}
					atomic.AddInt64(&completed, 1)
				}
			}(ci)
		}
		done := make(chan struct{})
		go func() { wg.Wait(); close(done) }()
		total := int64(callers * perCaller)
		// progress watchdog: "stuck" only when nothing completes for a long time AND the
		// goroutine dump shows the wait cycle; a merely slow machine keeps making progress.
		last, lastChange := int64(-1), time.Now()
		verdict := ""
		dump := ""
	watch:
		for {
			select {
			case <-done:
				verdict = "complete"
				break watch
			case <-time.After(200 * time.Millisecond):
			}
			cur := atomic.LoadInt64(&completed)
			if cur != last {
				last, lastChange = cur, time.Now()
				continue
			}
			idle := time.Since(lastChange)
			if idle > 8*time.Second {
				dump = stacks()
				if ownerLoopBlockedInWrite(dump) {
					verdict = "stuck"
					break watch
				}
			}
			if idle > 25*time.Second { // still well inside the library's own 30 s I/O deadline
				dump = stacks()
				verdict = "stalled"
				break watch
			}
		}
		cs := "(flow " + strconv.Itoa(callers) + " " + map[string]string{"complete": "complete", "stuck": "stuck", "stalled": "stuck"}[verdict] + ")"
		switch verdict {
		case "complete":
			completeRounds++
			emit("C", cs, "ok", "flow-complete", "1")
			if crossed > 0 {
				emit("F", "result.crossed.concurrent.pipe", "a caller obtained another caller's result", cs, detail("crossed", crossed))
			}
		case "stuck":
			stuckRounds++
			emit("C", cs, "ok", "flow-stuck", "1")
			emit("F", "flow.deadlock.unbuffered-conn.owner-loop-in-write",
				"concurrent callers over a connection that buffers nothing (net.Pipe) stopped making progress: the client's owner loop is blocked in WriteFcall and cannot take replies from its reader, the server's writer is blocked writing a reply, the serve loop on its writer, the server reader on the serve loop",
				cs, detail("callers", callers, "calls_per_caller", perCaller, "completed", last, "of", total, "round", round, "stacks", trim(dump, 12000)))
		default:
			stuckRounds++
			emit("C", cs, "ok", "flow-stalled", "1")
			emit("F", "flow.stalled.unbuffered-conn.other",
				"concurrent callers over net.Pipe made no progress for 25 s, and the goroutine dump does not show the owner loop inside WriteFcall",
				cs, detail("callers", callers, "completed", last, "of", total, "stacks", trim(dump, 12000)))
		}
		l.close()
		<-waitOr(done, 40*time.Second)
	}
	emit("X", "flow_rounds_complete", strconv.Itoa(completeRounds))
	emit("X", "flow_rounds_stuck", strconv.Itoa(stuckRounds))
	emit("D")
}

func waitOr(done chan struct{}, d time.Duration) chan struct{} {
	out := make(chan struct{})
	go func() {
		select {
		case <-done:
		case <-time.After(d):
		}
		close(out)
	}()
	return out
}

func childMain(mode string) {
	log.SetOutput(io.Discard)
	switch mode {
	case "func":
		childFunc()
	case "reply":
		childReply()
	case "flow":
		childFlow()
	case "barrier":
		childBarrier()
	case "reads":
		childReads()
	case "ctx":
		childCtx()
	default:
		fmt.Fprintln(os.Stderr, "unknown child mode", mode)
		os.Exit(2)
	}
}
