// C09 harness: a recording Session S behind p9p.ServeConn(ctx, conn,
// p9p.SSession(S)) and a p9p.CSession client on the other end of (a) an
// in-memory duplex connection that buffers without bound and (b) net.Pipe
// (buffers nothing).  Sequences and concurrent sets of the 11 session
// methods with boundary arguments and scripted results/errors; observed:
// what S received, what the caller got.  Each call is one case line which the
// Coq model (Run/RunC09.v) re-computes; direct oracles written from the
// property text check "arguments delivered exactly up to the wire limits",
// "results returned exactly, errors by text", "own results", "all complete".
//
// Everything that talks to the implementation runs in CHILD processes (this
// binary re-executed with VERIF_C09_CHILD set) under hard time-outs, because a
// hang is one of the behaviours the property forbids.
package main

import (
	"bufio"
	"encoding/json"
	"fmt"
	"os"
	"os/exec"
	"strconv"
	"strings"
	"time"

	"verifharness/internal/rep"
	"verifharness/internal/sx"
)

// childLine kinds (tab separated, one per line on the child's stdout):
//
//	C <case> <observed> <branch> <nontrivial 0|1>
//	F <key> <what> <case> <detail-json>
//	X <name> <json>
//	D                                  (child finished normally)
type childResult struct {
	done     bool
	timedOut bool
	exitErr  string
	lines    int
}

// verbatim is an sx.S that prints a string produced by the child as it is.
func runChild(r *rep.Report, mode string, env map[string]string, hard time.Duration, extra map[string]interface{}) childResult {
	cmd := exec.Command(os.Args[0])
	cmd.Env = append(os.Environ(), "VERIF_C09_CHILD="+mode)
	for k, v := range env {
		cmd.Env = append(cmd.Env, k+"="+v)
	}
	cmd.Stderr = os.Stderr
	out, err := cmd.StdoutPipe()
	if err != nil {
		panic(err)
	}
	if err := cmd.Start(); err != nil {
		panic(err)
	}
	res := childResult{}
	lines := make(chan string, 1024)
	go func() {
		sc := bufio.NewScanner(out)
		sc.Buffer(make([]byte, 1<<20), 64<<20)
		for sc.Scan() {
			lines <- sc.Text()
		}
		close(lines)
	}()
	timer := time.NewTimer(hard)
	defer timer.Stop()
loop:
	for {
		select {
		case l, ok := <-lines:
			if !ok {
				break loop
			}
			res.lines++
			f := strings.Split(l, "\t")
			switch f[0] {
			case "C":
				if len(f) == 5 {
					r.Case(sx.Sym(f[1]), sx.Sym(f[2]), f[3], f[4] == "1")
				}
			case "F":
				if len(f) == 5 {
					var d map[string]interface{}
					json.Unmarshal([]byte(f[4]), &d)
					r.Fail(f[1], f[2], sx.Sym(f[3]), d)
				}
			case "X":
				if len(f) == 3 {
					var v interface{}
					json.Unmarshal([]byte(f[2]), &v)
					extra[f[1]] = v
				}
			case "D":
				res.done = true
			}
		case <-timer.C:
			res.timedOut = true
			cmd.Process.Kill()
			break loop
		}
	}
	if err := cmd.Wait(); err != nil && !res.timedOut {
		res.exitErr = err.Error()
	}
	return res
}

func main() {
	if mode := os.Getenv("VERIF_C09_CHILD"); mode != "" {
		childMain(mode)
		return
	}
	r := rep.Open()
	defer r.Close()
	r.Rule = "each case is one session call: (call msize smsize Method args script) with msize the negotiated connection msize, " +
		"smsize what S.Version() reports, boundary-dense arguments (fids 0/NOFID, offsets 0/2^32/2^63-1/-2^63/-1, counts and data sizes " +
		"around and beyond msize-11 / msize-23, every Dir field incl. sub-second and out-of-range times, 0..17 walk names, empty/long/non-UTF8 names) " +
		"and a scripted result or error; issued in sequences and in concurrent sets over an unbounded-buffer connection and over net.Pipe; " +
		"(reply Method args msg) cases feed the client arbitrary reply messages through a custom Handler; (flow N observed) cases run N concurrent callers " +
		"over net.Pipe; (barrier N observed) cases run N (130..2000) concurrent callers against a session whose calls return only when all N have arrived; " +
		"pipelined-read rounds issue 16-64 callers x 10-30 back-to-back Reads with identity-dependent payloads over a slowly drained connection. A case is non-trivial when an argument or result is clipped, an error crosses the wire, a request is refused before sending, " +
		"or it ran concurrently with others; distinct = distinct canonical case text."
	seed := strconv.FormatUint(r.Seed, 10)
	extra := map[string]interface{}{}

	// (1) functional campaign, buffered connection (sequences + concurrent sets)
	nSeq := r.N(18, 420)
	nConc := r.N(22, 500)
	res := runChild(r, "func", map[string]string{"C09_SEED": seed, "C09_CONN": "buf", "C09_SEQ": strconv.Itoa(nSeq), "C09_CONC": strconv.Itoa(nConc)},
		time.Duration(r.N(300, 1500))*time.Second, extra)
	childVerdict(r, res, "buffered-conn")

	// (2) functional campaign over net.Pipe (buffers nothing): sequences and concurrent sets
	res = runChild(r, "func", map[string]string{"C09_SEED": seed + "7", "C09_CONN": "pipe", "C09_SEQ": strconv.Itoa(r.N(6, 120)), "C09_CONC": strconv.Itoa(r.N(6, 120))},
		time.Duration(r.N(300, 1500))*time.Second, extra)
	childVerdict(r, res, "net.Pipe-functional")

	// (3) arbitrary reply messages through a custom Handler
	res = runChild(r, "reply", map[string]string{"C09_SEED": seed + "3", "C09_N": strconv.Itoa(r.N(120, 3000))},
		time.Duration(r.N(300, 1500))*time.Second, extra)
	childVerdict(r, res, "reply-handler")

	// (4) completion: concurrent callers over net.Pipe
	res = runChild(r, "flow", map[string]string{"C09_SEED": seed + "5", "C09_ROUNDS": strconv.Itoa(r.N(12, 60))},
		time.Duration(r.N(400, 1500))*time.Second, extra)
	childVerdict(r, res, "net.Pipe-concurrent")

	// (5) more calls in flight than any fixed bound a server might put on running handlers:
	// N concurrent callers against a session whose calls return only when all N have arrived
	ns := "130,200,300"
	if r.Thorough() {
		ns = "129,130,200,300,500,1000,2000,257"
	}
	res = runChild(r, "barrier", map[string]string{"C09_SEED": seed + "9", "C09_NS": ns},
		time.Duration(r.N(400, 1500))*time.Second, extra)
	childVerdict(r, res, "barrier-session")

	// (6) pipelined concurrent reads with identity-dependent payloads, replies queueing in the server
	res = runChild(r, "reads", map[string]string{"C09_SEED": seed + "11", "C09_ROUNDS": strconv.Itoa(r.N(8, 40))},
		time.Duration(r.N(600, 1500))*time.Second, extra)
	childVerdict(r, res, "pipelined-reads")

	// (7) per-call contexts of different kinds (none / deadline / cancelled / expiring) with real time between calls
	res = runChild(r, "ctx", map[string]string{"C09_SEED": seed + "13", "C09_ROUNDS": strconv.Itoa(r.N(2, 8))},
		time.Duration(r.N(600, 1500))*time.Second, extra)
	childVerdict(r, res, "ctx-sequence")

	for k, v := range extra {
		r.Extra[k] = v
	}
}

func childVerdict(r *rep.Report, res childResult, what string) {
	switch {
	case res.done:
	case res.timedOut:
		// the child's own watchdogs are far shorter than the hard time-out: a child that
		// did not even report is a hang of the harness run as a whole
		r.Fail("harness.child-hard-timeout."+what, "child process exceeded its hard time-out without finishing ("+what+")", nil,
			map[string]interface{}{"lines": res.lines})
	default:
		r.Fail("harness.child-crashed."+what, "child process ended without its completion marker: "+res.exitErr+" ("+what+")", nil,
			map[string]interface{}{"lines": res.lines})
	}
}

func emit(kind string, fields ...string) {
	for i, f := range fields {
		fields[i] = strings.NewReplacer("\t", " ", "\n", " ").Replace(f)
	}
	fmt.Println(kind + "\t" + strings.Join(fields, "\t"))
}
