// Package peer is the scripted fake 9P server used by the C05 and C12
// harnesses: one end of an in-memory net.Conn given to p9p.CSession, a frame
// reader that reports every request frame (type, tag, fid) the client wrote,
// raw writes towards the client, and helpers that run one Session method per
// "call" and classify what it returned.
package peer

import (
	"bytes"
	"context"
	"encoding/binary"
	"errors"
	"fmt"
	"io"
	"net"
	"strconv"
	"strings"
	"sync"
	"time"

	p9p "github.com/frobnitzem/go-p9p"

	"verifharness/internal/sx"
)

// Wait is the generous time-out for "must happen" (shared, loaded machine).
var Wait = 30 * time.Second

const NOTAG = 0xFFFF

// Request types of the eleven client methods.
var Methods = []uint8{102, 104, 110, 112, 114, 116, 118, 120, 122, 124, 126}

// HasPayload: does a successful reply carry something the caller gets back?
func HasPayload(mt uint8) bool { return mt != 120 && mt != 122 && mt != 126 }

type Frame struct {
	Type uint8
	Tag  uint16
	Fid  uint32 // first 32-bit field of the body (fid/afid of every request the client can send)
	Raw  []byte
}

type Peer struct {
	Conn     net.Conn // server end
	Frames   chan Frame
	RdErr    chan error
	wmu      sync.Mutex
	gate     sync.Mutex
	Faults   *FaultConn // client end of the connection, when dialled with DialFaulty(…, true)
	c        *sync.Cond
	condOnce sync.Once
	nread    int // frames read off the connection (after the version exchange)
	taken    int // frames handed out by NextFrame
	stopAt   int // 0, or: do not read once nread has reached this
}

// PauseAfterNext makes the peer stop reading once it has read ONE more request
// frame than the harness has taken so far (all frames sent must have been taken
// with NextFrame).  From then on the client's writes block until Resume.
func (p *Peer) PauseAfterNext() {
	p.gate.Lock()
	p.stopAt = p.taken + 1
	p.gate.Unlock()
}

// Resume lets the peer read again.
func (p *Peer) Resume() {
	p.gate.Lock()
	p.stopAt = 0
	p.gate.Unlock()
	p.cond().Broadcast()
}

func (p *Peer) cond() *sync.Cond {
	p.condOnce.Do(func() { p.c = sync.NewCond(&p.gate) })
	return p.c
}

func (p *Peer) waitGate() {
	c := p.cond()
	p.gate.Lock()
	for p.stopAt != 0 && p.nread >= p.stopAt {
		c.Wait()
	}
	p.gate.Unlock()
}

func (p *Peer) countRead() {
	p.gate.Lock()
	p.nread++
	p.gate.Unlock()
}

func readFrame(c net.Conn) (Frame, error) {
	var hdr [4]byte
	if _, err := io.ReadFull(c, hdr[:]); err != nil {
		return Frame{}, err
	}
	n := binary.LittleEndian.Uint32(hdr[:])
	if n < 7 || n > 1<<24 {
		return Frame{}, fmt.Errorf("client wrote a frame with size field %d", n)
	}
	body := make([]byte, n-4)
	if _, err := io.ReadFull(c, body); err != nil {
		return Frame{}, err
	}
	f := Frame{Type: body[0], Tag: binary.LittleEndian.Uint16(body[1:3]), Raw: append(hdr[:], body...)}
	if len(body) >= 7 {
		f.Fid = binary.LittleEndian.Uint32(body[3:7])
	}
	return f, nil
}

func frame(body []byte) []byte {
	out := make([]byte, 4, 4+len(body))
	binary.LittleEndian.PutUint32(out, uint32(len(body)+4))
	return append(out, body...)
}

// Encode builds a complete frame for fc with the implementation's codec.
func Encode(fc *p9p.Fcall) ([]byte, error) {
	b, err := p9p.NewCodec().Marshal(fc)
	if err != nil {
		return nil, err
	}
	return frame(b), nil
}

// Dial creates the in-memory connection, answers the version negotiation
// like a well-behaved server, and returns the client session plus the peer.
func Dial(ctx context.Context) (p9p.Session, *Peer, error) { return DialFaulty(ctx, false) }

// DialFaulty is Dial; with faulty the client's end of the connection is
// wrapped in a FaultConn (p.Faults) whose Read can be made to fail.
func DialFaulty(ctx context.Context, faulty bool) (p9p.Session, *Peer, error) {
	pc, sc := net.Pipe()
	var cc net.Conn = pc
	p := &Peer{Conn: sc, Frames: make(chan Frame, 4096), RdErr: make(chan error, 1)}
	if faulty {
		p.Faults = NewFaultConn(pc)
		cc = p.Faults
	}
	hs := make(chan error, 1)
	go func() {
		f, err := readFrame(sc)
		if err != nil {
			hs <- err
			return
		}
		if f.Type != 100 || f.Tag != NOTAG {
			hs <- fmt.Errorf("first frame is not Tversion/NOTAG: type %d tag %d", f.Type, f.Tag)
			return
		}
		raw, err := Encode(&p9p.Fcall{Type: p9p.Rversion, Tag: p9p.NOTAG, Message: p9p.MessageRversion{MSize: f.Fid, Version: "9P2000"}})
		if err != nil {
			hs <- err
			return
		}
		if _, err := sc.Write(raw); err != nil {
			hs <- err
			return
		}
		hs <- nil
		for {
			p.waitGate() // after PauseAfterNext: the peer stops reading, the client's writes block
			f, err := readFrame(sc)
			p.countRead()
			if err != nil {
				p.RdErr <- err
				close(p.Frames)
				return
			}
			p.Frames <- f
		}
	}()
	type sres struct {
		s   p9p.Session
		err error
	}
	done := make(chan sres, 1)
	go func() {
		s, err := p9p.CSession(ctx, cc)
		done <- sres{s, err}
	}()
	select {
	case r := <-done:
		if r.err != nil {
			return nil, nil, r.err
		}
		if err := <-hs; err != nil {
			return nil, nil, err
		}
		return r.s, p, nil
	case <-time.After(Wait):
		return nil, nil, errors.New("version negotiation did not finish")
	}
}

// DialHostile is Dial with a peer that answers the client's Tversion with the
// given bytes (and then closes the connection if closeAfter).  It returns
// whatever p9p.CSession returned; ok=false if CSession did not return within Wait.
func DialHostile(ctx context.Context, answer []byte, closeAfter bool) (s p9p.Session, p *Peer, err error, ok bool) {
	cc, sc := net.Pipe()
	p = &Peer{Conn: sc, Frames: make(chan Frame, 4096), RdErr: make(chan error, 1)}
	go func() {
		if _, err := readFrame(sc); err != nil {
			p.RdErr <- err
			close(p.Frames)
			return
		}
		sc.SetWriteDeadline(time.Now().Add(Wait))
		sc.Write(answer)
		if closeAfter {
			sc.Close()
		}
		for {
			f, err := readFrame(sc)
			if err != nil {
				p.RdErr <- err
				close(p.Frames)
				return
			}
			p.Frames <- f
		}
	}()
	type sres struct {
		s   p9p.Session
		err error
	}
	done := make(chan sres, 1)
	go func() {
		s, err := p9p.CSession(ctx, cc)
		done <- sres{s, err}
	}()
	select {
	case r := <-done:
		return r.s, p, r.err, true
	case <-time.After(Wait):
		return nil, p, nil, false
	}
}

// Send writes raw bytes to the client.
func (p *Peer) Send(raw []byte) error {
	p.wmu.Lock()
	defer p.wmu.Unlock()
	p.Conn.SetWriteDeadline(time.Now().Add(Wait))
	_, err := p.Conn.Write(raw)
	return err
}

// NextFrame waits for the next request frame.
func (p *Peer) NextFrame() (Frame, error) {
	select {
	case f, ok := <-p.Frames:
		if !ok {
			return Frame{}, errors.New("client side of the connection failed")
		}
		p.gate.Lock()
		p.taken++
		p.gate.Unlock()
		return f, nil
	case <-time.After(Wait):
		return Frame{}, errors.New("no request frame within the time-out")
	}
}

func qid(id uint32) p9p.Qid { return p9p.Qid{Type: p9p.QTFILE, Version: 1, Path: uint64(id)} }

// Message builds a message of the given type whose payload encodes id.
func Message(ty uint8, id uint32) (p9p.Message, bool) {
	idb := make([]byte, 8)
	binary.LittleEndian.PutUint64(idb, uint64(id))
	switch p9p.FcallType(ty) {
	case p9p.Tversion:
		return p9p.MessageTversion{MSize: id, Version: "9P2000"}, true
	case p9p.Rversion:
		return p9p.MessageRversion{MSize: id, Version: "9P2000"}, true
	case p9p.Tauth:
		return p9p.MessageTauth{Afid: p9p.Fid(id), Uname: "u", Aname: "a"}, true
	case p9p.Rauth:
		return p9p.MessageRauth{Qid: qid(id)}, true
	case p9p.Tattach:
		return p9p.MessageTattach{Fid: p9p.Fid(id), Afid: p9p.NOFID, Uname: "u", Aname: "a"}, true
	case p9p.Rattach:
		return p9p.MessageRattach{Qid: qid(id)}, true
	case p9p.Rerror:
		return p9p.MessageRerror{Ename: "e" + strconv.FormatUint(uint64(id), 10)}, true
	case p9p.Tflush:
		return p9p.MessageTflush{Oldtag: p9p.Tag(id)}, true
	case p9p.Rflush:
		return p9p.MessageRflush{}, true
	case p9p.Twalk:
		return p9p.MessageTwalk{Fid: p9p.Fid(id), Newfid: p9p.Fid(id), Wnames: []string{"x"}}, true
	case p9p.Rwalk:
		qs := make([]p9p.Qid, 1+id%3) // all carry the id: a mixed-up reply shows
		for i := range qs {
			qs[i] = qid(id)
		}
		return p9p.MessageRwalk{Qids: qs}, true
	case p9p.Topen:
		return p9p.MessageTopen{Fid: p9p.Fid(id)}, true
	case p9p.Ropen:
		return p9p.MessageRopen{Qid: qid(id), IOUnit: 7}, true
	case p9p.Tcreate:
		return p9p.MessageTcreate{Fid: p9p.Fid(id), Name: "n"}, true
	case p9p.Rcreate:
		return p9p.MessageRcreate{Qid: qid(id), IOUnit: 7}, true
	case p9p.Tread:
		return p9p.MessageTread{Fid: p9p.Fid(id), Count: 8}, true
	case p9p.Rread:
		return p9p.MessageRread{Data: Payload(id)}, true
	case p9p.Twrite:
		return p9p.MessageTwrite{Fid: p9p.Fid(id), Data: idb}, true
	case p9p.Rwrite:
		return p9p.MessageRwrite{Count: id}, true
	case p9p.Tclunk:
		return p9p.MessageTclunk{Fid: p9p.Fid(id)}, true
	case p9p.Rclunk:
		return p9p.MessageRclunk{}, true
	case p9p.Tremove:
		return p9p.MessageTremove{Fid: p9p.Fid(id)}, true
	case p9p.Rremove:
		return p9p.MessageRremove{}, true
	case p9p.Tstat:
		return p9p.MessageTstat{Fid: p9p.Fid(id)}, true
	case p9p.Rstat:
		return p9p.MessageRstat{Stat: p9p.Dir{Qid: qid(id), Length: uint64(id), Name: "f" + strconv.FormatUint(uint64(id), 10), UID: "u", GID: "g", MUID: "m"}}, true
	case p9p.Twstat:
		return p9p.MessageTwstat{Fid: p9p.Fid(id), Stat: p9p.Dir{Name: "f"}}, true
	case p9p.Rwstat:
		return p9p.MessageRwstat{}, true
	}
	return nil, false
}

// Reply builds the frame of a reply (any decodable message type) with tag.
func Reply(tag uint16, ty uint8, id uint32) []byte {
	m, ok := Message(ty, id)
	if !ok {
		panic(fmt.Sprintf("peer.Reply: type %d has no message", ty))
	}
	raw, err := Encode(&p9p.Fcall{Type: p9p.FcallType(ty), Tag: p9p.Tag(tag), Message: m})
	if err != nil {
		panic(err)
	}
	return raw
}

// Payload is the data of the Rread reply with payload id: the id, then a
// pattern that depends on the id, 40..600 bytes in all, so that bytes of
// another reply showing up in it are seen.
func Payload(id uint32) []byte {
	n := 40 + int(id%561)
	b := make([]byte, n)
	binary.LittleEndian.PutUint64(b, uint64(id))
	for i := 8; i < n; i++ {
		b[i] = byte(id*31 + uint32(i)*7)
	}
	return b
}

// Result of one Session method call, projected to what C05/C12 talk about.
type Result struct {
	Class string // ok | rerror | unexpected | closed | ctx | werr | depleted | other
	ID    uint32 // payload id for ok (0 when the method returns no payload) and rerror
	Text  string // error text, for reports only
}

func (r Result) Sexp() sx.S {
	switch r.Class {
	case "ok", "rerror":
		return sx.L(sx.Sym(r.Class), sx.U(uint64(r.ID)))
	case "werr", "depleted":
		return sx.L(sx.Sym("err"), sx.Sym(r.Class))
	case "other", "corrupt":
		return sx.L(sx.Sym("err"), sx.Sym(r.Class))
	}
	return sx.Sym(r.Class)
}

func (r Result) IsError() bool { return r.Class != "ok" }

func classify(id uint32, err error) Result {
	if err == nil {
		return Result{Class: "ok", ID: id}
	}
	var re p9p.MessageRerror
	switch {
	case err == p9p.ErrUnexpectedMsg:
		return Result{Class: "unexpected", Text: err.Error()}
	case errors.As(err, &re):
		v, perr := strconv.ParseUint(strings.TrimPrefix(re.Ename, "e"), 10, 32)
		if perr != nil || !strings.HasPrefix(re.Ename, "e") {
			return Result{Class: "rerror", ID: 0xFFFFFFFF, Text: re.Ename}
		}
		return Result{Class: "rerror", ID: uint32(v), Text: re.Ename}
	case err == p9p.ErrClosed:
		return Result{Class: "closed", Text: err.Error()}
	case errors.Is(err, context.Canceled) || errors.Is(err, context.DeadlineExceeded):
		return Result{Class: "ctx", Text: err.Error()}
	case p9p.Overflow(err) > 0:
		return Result{Class: "werr", Text: err.Error()}
	case err.Error() == "tag pool depleted":
		return Result{Class: "depleted", Text: err.Error()}
	}
	return Result{Class: "other", Text: err.Error()}
}

var bigNames = func() []string {
	n := make([]string, 16)
	for i := range n {
		n[i] = strings.Repeat("x", 8000)
	}
	return n
}()

// Call runs the client method whose request type is mt, with fid c (so the
// peer can tell which call a frame belongs to).  big makes the request larger
// than msize (Walk only), so that WriteFcall fails.
func Call(ctx context.Context, s p9p.Session, mt uint8, c uint32, big bool) Result {
	fid := p9p.Fid(c)
	switch p9p.FcallType(mt) {
	case p9p.Tauth:
		q, err := s.Auth(ctx, fid, "u", "a")
		return classify(uint32(q.Path), err)
	case p9p.Tattach:
		q, err := s.Attach(ctx, fid, p9p.NOFID, "u", "a")
		return classify(uint32(q.Path), err)
	case p9p.Twalk:
		names := []string{"x"}
		if big {
			names = bigNames
		}
		qs, err := s.Walk(ctx, fid, fid, names...)
		var id uint32
		if len(qs) > 0 {
			id = uint32(qs[0].Path)
		}
		if err == nil {
			for _, q := range qs {
				if uint32(q.Path) != id || len(qs) != int(1+id%3) {
					return Result{Class: "corrupt", ID: id, Text: fmt.Sprintf("Rwalk qids %v do not all carry payload id %d", qs, id)}
				}
			}
		}
		return classify(id, err)
	case p9p.Topen:
		q, _, err := s.Open(ctx, fid, p9p.OREAD)
		return classify(uint32(q.Path), err)
	case p9p.Tcreate:
		q, _, err := s.Create(ctx, fid, "n", 0644, p9p.OREAD)
		return classify(uint32(q.Path), err)
	case p9p.Tread:
		buf := make([]byte, 1024)
		n, err := s.Read(ctx, fid, buf, 0)
		var id uint32
		if n >= 8 {
			id = uint32(binary.LittleEndian.Uint64(buf[:8]))
		}
		if err == nil && !bytes.Equal(buf[:n], Payload(id)) {
			return Result{Class: "corrupt", ID: id, Text: fmt.Sprintf("Rread data (%d bytes, id field %d) is not the payload the peer sent for that id", n, id)}
		}
		return classify(id, err)
	case p9p.Twrite:
		n, err := s.Write(ctx, fid, nil, 0)
		return classify(uint32(n), err)
	case p9p.Tclunk:
		return classify(0, s.Clunk(ctx, fid))
	case p9p.Tremove:
		return classify(0, s.Remove(ctx, fid))
	case p9p.Tstat:
		d, err := s.Stat(ctx, fid)
		if err == nil && (d.Name != "f"+strconv.FormatUint(d.Qid.Path, 10) || d.Length != d.Qid.Path) {
			return Result{Class: "corrupt", ID: uint32(d.Qid.Path), Text: fmt.Sprintf("Rstat fields disagree: qid path %d, length %d, name %q", d.Qid.Path, d.Length, d.Name)}
		}
		return classify(uint32(d.Qid.Path), err)
	case p9p.Twstat:
		return classify(0, s.WStat(ctx, fid, p9p.Dir{Name: "f"}))
	}
	panic(fmt.Sprintf("peer.Call: no client method builds request type %d", mt))
}

// Pending is one call running in its own goroutine.
type Pending struct {
	C      uint32
	MT     uint8
	Cancel context.CancelFunc
	Done   chan Result
}

// Start runs Call in a goroutine under a cancellable child of parent.
func Start(parent context.Context, s p9p.Session, mt uint8, c uint32, big bool) *Pending {
	ctx, cancel := context.WithCancel(parent)
	p := &Pending{C: c, MT: mt, Cancel: cancel, Done: make(chan Result, 1)}
	go func() { p.Done <- Call(ctx, s, mt, c, big) }()
	return p
}

// StartCtx runs Call under the given context (e.g. one with a deadline).
func StartCtx(ctx context.Context, cancel context.CancelFunc, s p9p.Session, mt uint8, c uint32) *Pending {
	p := &Pending{C: c, MT: mt, Cancel: cancel, Done: make(chan Result, 1)}
	go func() { p.Done <- Call(ctx, s, mt, c, false) }()
	return p
}

// NextFrameOrReturn waits for the next request frame or for the call to
// return, whichever comes first.
func (p *Peer) NextFrameOrReturn(pd *Pending) (f Frame, res *Result, err error) {
	select {
	case fr, ok := <-p.Frames:
		if !ok {
			return Frame{}, nil, errors.New("client side of the connection failed")
		}
		p.gate.Lock()
		p.taken++
		p.gate.Unlock()
		return fr, nil, nil
	case r := <-pd.Done:
		pd.Done <- r
		return Frame{}, &r, nil
	case <-time.After(Wait):
		return Frame{}, nil, errors.New("neither a request frame nor a return within the time-out")
	}
}

// Await waits for the call to return.
func (p *Pending) Await() (Result, bool) {
	select {
	case r := <-p.Done:
		return r, true
	case <-time.After(Wait):
		return Result{}, false
	}
}

// Returned reports (without waiting) whether the call has returned.
func (p *Pending) Returned() (Result, bool) {
	select {
	case r := <-p.Done:
		p.Done <- r
		return r, true
	default:
		return Result{}, false
	}
}

// ReadFault is a read error of the connection.  With NetError it satisfies
// net.Error with the given Timeout()/Temporary() answers; without, it is a
// plain error.
type ReadFault struct {
	NetError          bool
	IsTimeout, IsTemp bool
}

type netFault struct{ timeout, temporary bool }

func (e netFault) Error() string {
	return fmt.Sprintf("injected read error (net.Error, Timeout=%v, Temporary=%v)", e.timeout, e.temporary)
}
func (e netFault) Timeout() bool   { return e.timeout }
func (e netFault) Temporary() bool { return e.temporary }

type deadlineErr struct{}

func (deadlineErr) Error() string   { return "i/o timeout" }
func (deadlineErr) Timeout() bool   { return true }
func (deadlineErr) Temporary() bool { return true }

// FaultConn wraps the client's end of the pipe.  Reads are served from a pump
// goroutine so that a Read that is blocked waiting for the peer can be made to
// return an injected error instead; read deadlines are honoured (a timeout
// error that is Timeout() and Temporary(), like the net package's); writes,
// write deadlines and Close go to the underlying connection.
type FaultConn struct {
	net.Conn
	chunks chan []byte
	rest   []byte
	eof    chan error
	faults chan error
	mu     sync.Mutex
	rdl    time.Time
}

func NewFaultConn(c net.Conn) *FaultConn {
	f := &FaultConn{Conn: c, chunks: make(chan []byte), eof: make(chan error, 1), faults: make(chan error)}
	go func() {
		for {
			buf := make([]byte, 64<<10)
			n, err := c.Read(buf)
			if n > 0 {
				f.chunks <- buf[:n]
			}
			if err != nil {
				f.eof <- err
				return
			}
		}
	}()
	return f
}

func (f *FaultConn) SetReadDeadline(t time.Time) error {
	f.mu.Lock()
	f.rdl = t
	f.mu.Unlock()
	return nil
}

func (f *FaultConn) SetDeadline(t time.Time) error {
	f.SetReadDeadline(t)
	return f.Conn.SetWriteDeadline(t)
}

func (f *FaultConn) Read(p []byte) (int, error) {
	if len(f.rest) > 0 {
		n := copy(p, f.rest)
		f.rest = f.rest[n:]
		return n, nil
	}
	f.mu.Lock()
	dl := f.rdl
	f.mu.Unlock()
	var timer <-chan time.Time
	if !dl.IsZero() {
		t := time.NewTimer(time.Until(dl))
		defer t.Stop()
		timer = t.C
	}
	select {
	case b := <-f.chunks:
		n := copy(p, b)
		f.rest = b[n:]
		return n, nil
	case err := <-f.faults:
		return 0, err
	case err := <-f.eof:
		f.eof <- err
		return 0, err
	case <-timer:
		return 0, deadlineErr{}
	}
}

// Inject makes the Read the client is blocked in (or its next one) return the
// fault; it reports false if no Read took it within Wait.
func (f *FaultConn) Inject(r ReadFault) bool {
	var err error = errors.New("injected read error (not a net.Error)")
	if r.NetError {
		err = netFault{r.IsTimeout, r.IsTemp}
	}
	select {
	case f.faults <- err:
		return true
	case <-time.After(Wait):
		return false
	}
}
