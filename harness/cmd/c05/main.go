// C05 harness: a scripted fake server on an in-memory net.Conn drives the
// real client (p9p.CSession -> transport.go, csession.go).
//
//   - schedules: up to 64 calls pending at once, started one by one or as a
//     racing group (the order of the request frames fixes the order in which
//     the owner loop took them), answered in PRNG-chosen order interleaved
//     with new requests; replies of the right type, Rerror, or a wrong type;
//     calls abandoned by cancelling their context (their tag stays
//     outstanding; a late reply to it is sent too); requests too large for
//     msize (WriteFcall fails, the tag is given back);
//   - wrap histories: >= 70 000 / 200 000 requests on one session with up to
//     ~1000 long-outstanding tags (pending or abandoned) straddling the wrap
//     of the 16-bit tag space; thorough: a session whose pool is exhausted by
//     65535 abandoned calls;
//   - allocateTag driven directly (hook VerifAllocateTag) on random pools,
//     including full and nearly full ones.
//
// Every case line holds the event history as it happened; the observation
// holds the tag seen on every request frame and every call's return value.
// The Coq model (Run/RunC05.v over Model/Tags.v) must predict both exactly.
// Direct oracles (from the property text, no model): tags awaiting a reply
// are pairwise distinct and never NOTAG; a call returns the payload of the
// reply that carried the tag of its own request frame; Rerror becomes the
// call's error; nobody returns without a cause; everybody returns.
package main

import (
	"context"
	"flag"
	"fmt"
	"io"
	"log"
	"sort"
	"time"

	p9p "github.com/frobnitzem/go-p9p"

	"verifharness/cmd/c05/peer"
	"verifharness/internal/prng"
	"verifharness/internal/rep"
	"verifharness/internal/sx"
)

type driver struct {
	r      *rep.Report
	rng    *prng.R
	ctx    context.Context
	stop   context.CancelFunc
	sess   p9p.Session
	peer   *peer.Peer
	events []sx.S
	obs    []sx.S

	// the server's own bookkeeping, used by the direct oracles
	awaiting             map[uint16]uint32        // tag -> call whose frame carried it, not yet answered
	live                 map[uint32]*peer.Pending // calls that have not returned (as far as the script knows)
	tagOf                map[uint32]uint16
	abandoned            []uint16 // tags of cancelled calls, not yet answered
	nextCall             uint32
	nextRid              uint32
	maxLive              int
	nreq                 int
	reordered            bool
	failed               bool
	writtenThenCancelled int
	noCase               bool // the rest of the history is checked by the direct oracles only
	label                string
}

func newDriver(r *rep.Report, rng *prng.R) *driver {
	d := &driver{r: r, rng: rng, awaiting: map[uint16]uint32{}, live: map[uint32]*peer.Pending{}, tagOf: map[uint32]uint16{}, nextCall: 1, nextRid: 1000000}
	d.ctx, d.stop = context.WithCancel(context.Background())
	s, p, err := peer.Dial(d.ctx)
	if err != nil {
		d.fail("harness.dial", "could not establish the client session: "+err.Error())
		return d
	}
	d.sess, d.peer = s, p
	return d
}

func (d *driver) caseSexp() sx.S { return sx.L(sx.Sym("sched"), sx.List(d.events)) }

// totalFails: a failing session costs up to peer.Wait; after a few the run
// stops generating more (what was found is reported).
var totalFails int

func (d *driver) fail(key, what string) {
	d.failed = true
	totalFails++
	c := d.caseSexp()
	s := sx.String(c)
	if len(s) > 20000 {
		s = s[:20000] + "…"
	}
	d.r.Fail(key, what, nil, map[string]interface{}{"case": s, "events_so_far": len(d.events)})
}

func (d *driver) close() {
	d.stop()
	if d.peer != nil {
		d.peer.Conn.Close()
	}
}

func (d *driver) liveList() []uint32 {
	out := make([]uint32, 0, len(d.live))
	for c := range d.live {
		out = append(out, c)
	}
	sort.Slice(out, func(i, j int) bool { return out[i] < out[j] })
	return out
}

// onFrame: direct oracle on every request frame.
func (d *driver) onFrame(f peer.Frame, c uint32, mt uint8) {
	if f.Fid != c || f.Type != mt {
		d.fail("transport.handle:wrong-frame", fmt.Sprintf("expected the request frame of call %d (type %d), got type %d fid %d tag %d", c, mt, f.Type, f.Fid, f.Tag))
		return
	}
	if f.Tag == peer.NOTAG {
		d.fail("transport.allocateTag:notag", fmt.Sprintf("request frame of call %d carries the reserved tag 0xFFFF", c))
	}
	if other, dup := d.awaiting[f.Tag]; dup {
		d.fail("transport.allocateTag:duplicate-tag", fmt.Sprintf("request frame of call %d carries tag %d which still awaits a reply (call %d)", c, f.Tag, other))
	}
	d.awaiting[f.Tag] = c
	d.tagOf[c] = f.Tag
	d.nreq++
}

// req starts one call and waits for its frame (or, for an oversized request, for its return).
func (d *driver) req(mt uint8, big bool) {
	if d.failed {
		return
	}
	c := d.nextCall
	d.nextCall++
	p := peer.Start(d.ctx, d.sess, mt, c, big)
	if big {
		d.events = append(d.events, sx.L(sx.Sym("req"), sx.U(uint64(c)), sx.U(uint64(mt)), sx.I(0)))
		res, ok := p.Await()
		if !ok {
			d.fail("transport.send:no-return", fmt.Sprintf("call %d (oversized request, WriteFcall fails) did not return", c))
			return
		}
		d.obs = append(d.obs, sx.L(sx.Sym("d"), sx.U(uint64(c)), res.Sexp()))
		if res.Class != "werr" {
			d.fail("transport.handle:write-error-lost", fmt.Sprintf("call %d: WriteFcall failed (message larger than msize) but the call returned %s %q", c, res.Class, res.Text))
		}
		return
	}
	f, err := d.peer.NextFrame()
	if err != nil {
		d.fail("transport.handle:no-frame", fmt.Sprintf("call %d: %v", c, err))
		return
	}
	d.live[c] = p
	d.onFrame(f, c, mt)
	d.events = append(d.events, sx.L(sx.Sym("req"), sx.U(uint64(c)), sx.U(uint64(mt)), sx.I(1)))
	d.obs = append(d.obs, sx.L(sx.Sym("f"), sx.U(uint64(f.Tag))))
	if len(d.live) > d.maxLive {
		d.maxLive = len(d.live)
	}
}

// race starts n calls at once; the frames tell in which order the loop took them.
func (d *driver) race(n int) {
	if d.failed {
		return
	}
	ps := map[uint32]*peer.Pending{}
	for i := 0; i < n; i++ {
		c := d.nextCall
		d.nextCall++
		mt := peer.Methods[d.rng.Intn(len(peer.Methods))]
		ps[c] = peer.Start(d.ctx, d.sess, mt, c, false)
	}
	for i := 0; i < n; i++ {
		f, err := d.peer.NextFrame()
		if err != nil {
			d.fail("transport.handle:no-frame", fmt.Sprintf("racing group: %v", err))
			return
		}
		p, ok := ps[f.Fid]
		if !ok {
			d.fail("transport.handle:wrong-frame", fmt.Sprintf("racing group: frame for fid %d which no pending call uses", f.Fid))
			return
		}
		delete(ps, f.Fid)
		d.live[p.C] = p
		d.onFrame(f, p.C, p.MT)
		d.events = append(d.events, sx.L(sx.Sym("req"), sx.U(uint64(p.C)), sx.U(uint64(p.MT)), sx.I(1)))
		d.obs = append(d.obs, sx.L(sx.Sym("f"), sx.U(uint64(f.Tag))))
	}
	if len(d.live) > d.maxLive {
		d.maxLive = len(d.live)
	}
}

const (
	kRight = iota
	kRerror
	kWrong
)

// replyTag sends a reply with the given tag.  If the tag's call is pending the
// reply must come back out of that call.
// sentReply is one reply the peer has built: who must get it and what it carries.
type sentReply struct {
	tag   uint16
	c     uint32
	p     *peer.Pending // nil: nobody is waiting (abandoned call's tag)
	kind  int
	mt    uint8
	ty    uint8
	rid   uint32
	raw   []byte
	known bool
}

func (d *driver) buildReply(tag uint16, kind int) sentReply {
	c, known := d.awaiting[tag]
	p := d.live[c]
	rid := d.nextRid
	d.nextRid++
	var ty uint8
	var mt uint8 = 120
	if p != nil {
		mt = p.MT
	}
	switch kind {
	case kRight:
		ty = mt + 1
	case kRerror:
		ty = 107
	default:
		for {
			ty = uint8(d.rng.Range(100, 127))
			if ty != mt+1 && ty != 107 && ty != 106 {
				break
			}
		}
	}
	return sentReply{tag: tag, c: c, p: p, kind: kind, mt: mt, ty: ty, rid: rid, raw: peer.Reply(tag, ty, rid), known: known}
}

// afterReply records the reply as an event and, if a call is waiting for it,
// waits for that call and checks what it returned.
func (d *driver) afterReply(r sentReply) {
	d.events = append(d.events, sx.L(sx.Sym("resp"), sx.U(uint64(r.tag)), sx.U(uint64(r.ty)), sx.U(uint64(r.rid))))
	if r.known {
		delete(d.awaiting, r.tag)
	}
	if r.p == nil || !r.known {
		d.obs = append(d.obs, sx.Sym("none"))
		return
	}
	res, ok := r.p.Await()
	if !ok {
		d.fail("transport.send:no-return", fmt.Sprintf("call %d did not return although a reply with its tag %d was sent", r.c, r.tag))
		return
	}
	delete(d.live, r.c)
	d.obs = append(d.obs, sx.L(sx.Sym("d"), sx.U(uint64(r.c)), res.Sexp()))
	// direct oracle: the call returns exactly what this reply carried
	want := peer.Result{Class: "ok", ID: r.rid}
	switch {
	case r.kind == kRerror:
		want = peer.Result{Class: "rerror", ID: r.rid}
	case r.kind == kWrong:
		want = peer.Result{Class: "unexpected"}
	case !peer.HasPayload(r.mt):
		want.ID = 0
	}
	if res.Class != want.Class || res.ID != want.ID {
		key := "transport.handle:misdelivered-reply"
		if res.Class == "corrupt" {
			key = "transport.reply:payload-corrupted"
		} else if r.kind == kRerror {
			key = "transport.send:rerror-not-the-calls-error"
		} else if r.kind == kWrong {
			key = "csession:wrong-type-reply-not-an-error"
		}
		d.fail(key, fmt.Sprintf("call %d (request type %d, tag %d) was answered with type %d payload %d and returned %s %d %q; expected %s %d", r.c, r.mt, r.tag, r.ty, r.rid, res.Class, res.ID, res.Text, want.Class, want.ID))
	}
}

// replyTag sends a reply with the given tag.  If the tag's call is pending the
// reply must come back out of that call.
func (d *driver) replyTag(tag uint16, kind int) {
	if d.failed {
		return
	}
	r := d.buildReply(tag, kind)
	if err := d.peer.Send(r.raw); err != nil {
		d.fail("harness.send", "writing a reply to the client failed: "+err.Error())
		return
	}
	d.afterReply(r)
}

// replyMany answers up to n pending calls (PRNG-chosen, any kind) with ALL the
// reply frames in ONE write: the client's reader decodes them back to back,
// each into the same read buffer, while the earlier callers are still waking
// up.  Every caller must nevertheless get its own payload, byte for byte.
func (d *driver) replyMany(n int) {
	if d.failed {
		return
	}
	l := d.liveList()
	for i := len(l) - 1; i > 0; i-- {
		j := d.rng.Intn(i + 1)
		l[i], l[j] = l[j], l[i]
	}
	if len(l) > n {
		l = l[:n]
	}
	if len(l) < 2 {
		return
	}
	d.reordered = true
	var rs []sentReply
	var chunk []byte
	for _, c := range l {
		kind := d.randKind()
		if d.live[c].MT == 116 && d.rng.Chance(3, 4) {
			kind = kRight // Rread carries the large payload
		}
		r := d.buildReply(d.tagOf[c], kind)
		rs = append(rs, r)
		chunk = append(chunk, r.raw...)
	}
	if err := d.peer.Send(chunk); err != nil {
		d.fail("harness.send", "writing replies to the client failed: "+err.Error())
		return
	}
	for _, r := range rs {
		if d.failed {
			return
		}
		d.afterReply(r)
	}
}

// writeThenCancel: the peer stops reading, call A's frame blocks inside the
// connection's Write, A's own context is cancelled, the peer reads again and
// the write completes.  The frame HAS reached the peer, which never answers
// it: its tag must stay outstanding (and be skipped after a wrap).  A probe
// call C tells which of the possible histories happened.
func (d *driver) writeThenCancel() {
	if d.failed {
		return
	}
	const settle = 40 * time.Millisecond
	d.peer.PauseAfterNext()
	paused := true
	resume := func() {
		if paused {
			d.peer.Resume()
			paused = false
		}
	}
	defer resume()
	d.req(120, false) // taken by the read already under way
	if d.failed {
		return
	}
	t0 := d.tagOf[d.nextCall-1]
	idA := d.nextCall
	d.nextCall++
	mtA := peer.Methods[d.rng.Intn(len(peer.Methods))]
	pA := peer.Start(d.ctx, d.sess, mtA, idA, false)
	time.Sleep(settle)
	pA.Cancel()
	resA, ok := pA.Await()
	if !ok {
		d.fail("transport.send:no-return-on-own-ctx", fmt.Sprintf("call %d (its write blocked by a peer that stopped reading) did not return after its own context was cancelled", idA))
		return
	}
	resume()
	idC := d.nextCall
	d.nextCall++
	mtC := peer.Methods[d.rng.Intn(len(peer.Methods))]
	pC := peer.Start(d.ctx, d.sess, mtC, idC, false)
	f, err := d.peer.NextFrame()
	if err != nil {
		d.fail("transport.handle:no-frame", fmt.Sprintf("after the peer resumed reading: %v", err))
		return
	}
	cancelEv := func() {
		d.events = append(d.events, sx.L(sx.Sym("cancel"), sx.U(uint64(idA))))
		d.obs = append(d.obs, sx.L(sx.Sym("d"), sx.U(uint64(idA)), resA.Sexp()))
	}
	step := func(name string, o sx.S, args ...sx.S) {
		d.events = append(d.events, sx.L(append([]sx.S{sx.Sym(name)}, args...)...))
		d.obs = append(d.obs, o)
	}
	none := sx.Sym("none")
	written := f.Fid == idA
	if written {
		// A's frame was on its way when the context ended, and arrived
		step("q", none, sx.U(uint64(idA)), sx.U(uint64(mtA)))
		step("hand", none)
		cancelEv()
		d.onFrame(f, idA, mtA) // the peer has it and will never answer: awaiting for good
		step("wrote", sx.L(sx.Sym("f"), sx.U(uint64(f.Tag))))
		if f, err = d.peer.NextFrame(); err != nil {
			d.fail("transport.handle:no-frame", fmt.Sprintf("call %d: %v", idC, err))
			return
		}
	}
	if f.Fid != idC || f.Type != mtC {
		d.fail("transport.handle:wrong-frame", fmt.Sprintf("expected the frame of call %d, got fid %d type %d", idC, f.Fid, f.Type))
		return
	}
	if !written {
		switch f.Tag {
		case t0 + 2: // A had been given a tag, its write was refused on entry (context already over)
			step("q", none, sx.U(uint64(idA)), sx.U(uint64(mtA)))
			step("hand", none)
			cancelEv()
			step("wfail", none)
		default: // A's context ended before the loop took the request
			cancelEv()
		}
	}
	d.live[idC] = pC
	d.onFrame(f, idC, mtC)
	d.events = append(d.events, sx.L(sx.Sym("req"), sx.U(uint64(idC)), sx.U(uint64(mtC)), sx.I(1)))
	d.obs = append(d.obs, sx.L(sx.Sym("f"), sx.U(uint64(f.Tag))))
	if resA.Class != "ctx" {
		d.fail("transport.send:own-ctx-result", fmt.Sprintf("call %d: own context cancelled, returned %s %q", idA, resA.Class, resA.Text))
	}
	if written {
		d.writtenThenCancelled++
	}
}

func (d *driver) randKind() int {
	switch x := d.rng.Intn(10); {
	case x < 6:
		return kRight
	case x < 8:
		return kRerror
	}
	return kWrong
}

// replyLive answers a pending call chosen by the PRNG.
func (d *driver) replyLive(kind int) {
	l := d.liveList()
	if len(l) == 0 {
		return
	}
	idx := d.rng.Intn(len(l))
	if idx != 0 {
		d.reordered = true
	}
	d.replyTag(d.tagOf[l[idx]], kind)
}

// replyAbandoned answers the tag of a cancelled call.  Nothing observable
// happens, so a pending call is answered right after it: the reader goroutine
// hands frames over in order, hence when that call returns the loop has
// processed the late reply as well (the history stays totally ordered).
func (d *driver) replyAbandoned() {
	if d.failed || len(d.abandoned) == 0 {
		return
	}
	if len(d.live) == 0 {
		d.req(peer.Methods[d.rng.Intn(len(peer.Methods))], false)
	}
	i := d.rng.Intn(len(d.abandoned))
	tag := d.abandoned[i]
	d.abandoned = append(d.abandoned[:i], d.abandoned[i+1:]...)
	d.replyTag(tag, d.randKind())
	d.replyLive(kRight)
}

func (d *driver) cancel() {
	l := d.liveList()
	if d.failed || len(l) == 0 {
		return
	}
	c := l[d.rng.Intn(len(l))]
	p := d.live[c]
	p.Cancel()
	d.events = append(d.events, sx.L(sx.Sym("cancel"), sx.U(uint64(c))))
	res, ok := p.Await()
	if !ok {
		d.fail("transport.send:no-return-on-own-ctx", fmt.Sprintf("call %d did not return after its own context was cancelled", c))
		return
	}
	delete(d.live, c)
	d.abandoned = append(d.abandoned, d.tagOf[c])
	d.obs = append(d.obs, sx.L(sx.Sym("d"), sx.U(uint64(c)), res.Sexp()))
	if res.Class != "ctx" {
		d.fail("transport.send:own-ctx-result", fmt.Sprintf("call %d: own context cancelled, returned %s %q", c, res.Class, res.Text))
	}
}

type run struct{ start, n uint64 }

// burst: n calls one after the other (one goroutine), each answered at once
// with the right type and payload = call id.
func (d *driver) burst(n int, mt uint8) {
	if d.failed || n == 0 {
		return
	}
	c0 := d.nextCall
	d.nextCall += uint32(n)
	d.events = append(d.events, sx.L(sx.Sym("burst"), sx.U(uint64(n)), sx.U(uint64(c0)), sx.U(uint64(mt))))
	type bres struct {
		good int
		bad  string
	}
	done := make(chan bres, 1)
	go func() {
		var b bres
		for i := 0; i < n; i++ {
			c := c0 + uint32(i)
			res := peer.Call(d.ctx, d.sess, mt, c, false)
			want := c
			if !peer.HasPayload(mt) {
				want = 0
			}
			if res.Class == "ok" && res.ID == want && peer.HasPayload(mt) {
				b.good++
			} else if res.Class == "ok" && !peer.HasPayload(mt) {
				b.good++
			} else if b.bad == "" {
				b.bad = fmt.Sprintf("call %d returned %s %d %q", c, res.Class, res.ID, res.Text)
			}
			if res.Class != "ok" {
				break
			}
		}
		done <- b
	}()
	var runs []run
	for i := 0; i < n; i++ {
		c := c0 + uint32(i)
		f, err := d.peer.NextFrame()
		if err != nil {
			d.fail("transport.handle:no-frame", fmt.Sprintf("burst call %d: %v", c, err))
			return
		}
		d.onFrame(f, c, mt)
		if d.failed {
			return
		}
		if k := len(runs); k > 0 && runs[k-1].start+runs[k-1].n == uint64(f.Tag) {
			runs[k-1].n++
		} else {
			runs = append(runs, run{uint64(f.Tag), 1})
		}
		delete(d.awaiting, f.Tag)
		if err := d.peer.Send(peer.Reply(f.Tag, mt+1, c)); err != nil {
			d.fail("harness.send", "writing a reply to the client failed: "+err.Error())
			return
		}
	}
	var b bres
	select {
	case b = <-done:
	case <-time.After(peer.Wait):
		d.fail("transport.send:no-return", "the last call of a burst did not return")
		return
	}
	rs := make([]sx.S, len(runs))
	for i, x := range runs {
		rs[i] = sx.L(sx.U(x.start), sx.U(x.n))
	}
	d.obs = append(d.obs, sx.L(sx.Sym("b"), sx.List(rs), sx.U(uint64(b.good))))
	if b.good != n {
		d.fail("transport.handle:misdelivered-reply", fmt.Sprintf("burst of %d calls answered in order: only %d returned their own reply; first: %s", n, b.good, b.bad))
	}
}

// finish answers everything still pending, checks nobody returned without a
// cause, and emits the case.
func (d *driver) finish(nontrivial bool) {
	if !d.failed {
		// nobody may have returned spontaneously
		for _, c := range d.liveList() {
			if res, done := d.live[c].Returned(); done {
				d.fail("transport.send:spurious-return", fmt.Sprintf("call %d returned %s %q although no reply with its tag was sent and its context is live", c, res.Class, res.Text))
				break
			}
		}
	}
	for !d.failed && len(d.live) > 0 {
		d.replyLive(kRight)
	}
	if !d.failed && !d.noCase {
		d.r.Case(d.caseSexp(), sx.List(d.obs), d.label, nontrivial)
	}
	d.close()
}

func schedule(r *rep.Report, rng *prng.R, racy bool) {
	d := newDriver(r, rng)
	k := rng.Pick(1, 2, 3, 5, 8, 16, 33, 64)
	steps := rng.Range(10, 40+4*k)
	d.label = fmt.Sprintf("sched:k<=%d", k)
	for i := 0; i < steps && !d.failed; i++ {
		x := rng.Intn(100)
		switch {
		case len(d.live) < k && x < 45:
			if racy && rng.Chance(1, 2) {
				n := rng.Range(1, k-len(d.live))
				d.race(n)
			} else {
				mt := peer.Methods[rng.Intn(len(peer.Methods))]
				d.req(mt, false)
			}
		case x < 50:
			d.req(110, true) // oversized Twalk: WriteFcall fails, the tag goes back
		case x < 72:
			d.replyLive(d.randKind())
		case x < 80:
			d.replyMany(d.rng.Range(2, 8))
		case x < 88:
			d.cancel()
		case x < 94:
			d.replyAbandoned()
		default:
			d.burst(rng.Range(1, 12), peer.Methods[rng.Intn(len(peer.Methods))])
		}
	}
	d.finish(d.maxLive >= 2 || d.reordered)
}

// wrapHistory: total requests on one session, long-outstanding tags across the wrap.
func wrapHistory(r *rep.Report, rng *prng.R, total int, deplete bool) (requests int, maxLong int) {
	d := newDriver(r, rng)
	d.label = "wrap"
	if deplete {
		d.label = "wrap:deplete"
	}
	long := func() int { return len(d.live) + len(d.abandoned) }
	// requests the peer has received and never answers, their callers gone while the write was under way
	for i := 0; i < 4 && !d.failed; i++ {
		d.writeThenCancel()
	}
	for d.nreq < total && !d.failed {
		d.burst(rng.Range(1, 4000), peer.Methods[rng.Intn(len(peer.Methods))])
		n := rng.Range(0, 250)
		for i := 0; i < n && !d.failed; i++ {
			switch x := rng.Intn(10); {
			case x < 5 && long() < 1000:
				d.req(peer.Methods[rng.Intn(len(peer.Methods))], false)
			case x < 7:
				d.cancel()
			case x < 8:
				if rng.Chance(1, 3) {
					d.replyMany(rng.Range(2, 6))
				} else {
					d.replyLive(d.randKind())
				}
			case x < 9:
				d.replyAbandoned()
			default:
				d.req(110, true)
			}
		}
		if long() > maxLong {
			maxLong = long()
		}
	}
	if deplete && !d.failed {
		// The history so far goes to the model.  The exhaustion phase is left to
		// the direct oracles: the model's `len(m)` is linear in the pool, 65535
		// requests on a pool growing to 65535 would take it many minutes, and the
		// allocator on full / nearly full pools is model-compared by the alloc cases.
		d.r.Case(d.caseSexp(), sx.List(d.obs), d.label, true)
		d.noCase = true
		// abandon calls until the pool is exhausted: 65535 tags outstanding
		// (one call stays pending: it is the barrier after the late reply below)
		d.req(120, false)
		for len(d.awaiting) < 65535 && !d.failed {
			d.req(120, false)
			d.cancel()
		}
		// every further call must fail with the allocator's error, and nothing may be written
		for i := 0; i < 3 && !d.failed; i++ {
			c := d.nextCall
			d.nextCall++
			p := peer.Start(d.ctx, d.sess, 120, c, false)
			d.events = append(d.events, sx.L(sx.Sym("req"), sx.U(uint64(c)), sx.U(120), sx.I(1)))
			res, ok := p.Await()
			if !ok {
				d.fail("transport.send:no-return", fmt.Sprintf("call %d on an exhausted tag pool did not return", c))
				break
			}
			d.obs = append(d.obs, sx.L(sx.Sym("d"), sx.U(uint64(c)), res.Sexp()))
			if res.Class != "depleted" {
				d.fail("transport.allocateTag:exhausted-pool", fmt.Sprintf("call %d on a pool with 65535 outstanding tags returned %s %q", c, res.Class, res.Text))
			}
		}
		// free one tag: the next call must get exactly that one
		if !d.failed {
			d.replyAbandoned2(rng)
		}
	}
	requests = d.nreq
	d.r.Extra["wrap_frames_written_while_cancelled"] = d.writtenThenCancelled
	d.finish(true)
	return
}

// replyAbandoned2: with an exhausted pool no new call can serve as the
// barrier, so answer an abandoned tag and then probe until a call gets a frame.
func (d *driver) replyAbandoned2(rng *prng.R) {
	i := rng.Intn(len(d.abandoned))
	tag := d.abandoned[i]
	d.abandoned = append(d.abandoned[:i], d.abandoned[i+1:]...)
	if len(d.live) == 0 {
		return
	}
	// the barrier frees a second tag: that of the pending call answered after the late reply
	before := map[uint16]bool{}
	for _, c := range d.liveList() {
		before[d.tagOf[c]] = true
	}
	d.replyTag(tag, kRight)
	d.replyLive(kRight)
	free := map[uint16]bool{tag: true}
	for t := range before {
		if _, still := d.awaiting[t]; !still {
			free[t] = true
		}
	}
	d.req(120, false)
	if got := d.tagOf[d.nextCall-1]; !d.failed && !free[got] {
		d.fail("transport.allocateTag:exhausted-pool", fmt.Sprintf("the free tags are %v but the call got %d", free, got))
	}
}

// ---- allocateTag directly

type rng2 struct{ lo, hi int }

func allocCases(r *rep.Report, rng *prng.R, n int) {
	for i := 0; i < n; i++ {
		var ranges []rng2
		switch rng.Intn(24) {
		case 0, 4, 5: // empty / tiny
			for j := rng.Intn(3); j > 0; j-- {
				v := rng.Intn(65535)
				ranges = append(ranges, rng2{v, v})
			}
		case 1: // full
			ranges = append(ranges, rng2{0, 65534})
		case 2: // nearly full: all but a few holes
			holes := map[int]bool{}
			for j := rng.Range(1, 4); j > 0; j-- {
				holes[rng.Pick(0, 1, 65533, 65534, rng.Intn(65535), rng.Intn(65535))] = true
			}
			var hs []int
			for h := range holes {
				hs = append(hs, h)
			}
			sort.Ints(hs)
			lo := 0
			for _, h := range hs {
				if h > lo {
					ranges = append(ranges, rng2{lo, h - 1})
				}
				lo = h + 1
			}
			if lo <= 65534 {
				ranges = append(ranges, rng2{lo, 65534})
			}
		default: // a few random blocks, often around the wrap and the hint
			for j := rng.Range(1, 6); j > 0; j-- {
				lo := rng.Pick(0, 1, 65000, 65530, rng.Intn(65535))
				hi := lo + rng.Pick(0, 1, 5, 300, 5000)
				if hi > 65534 {
					hi = 65534
				}
				ranges = append(ranges, rng2{lo, hi})
			}
		}
		used := map[p9p.Tag]bool{}
		var rs []sx.S
		for _, x := range ranges {
			rs = append(rs, sx.L(sx.I(int64(x.lo)), sx.I(int64(x.hi))))
			for t := x.lo; t <= x.hi; t++ {
				used[p9p.Tag(t)] = true
			}
		}
		var hint int
		switch rng.Intn(6) {
		case 0:
			hint = rng.Pick(0, 1, 65533, 65534, 65535)
		case 1, 2:
			if len(ranges) > 0 { // just before / inside / at the end of a block
				x := ranges[rng.Intn(len(ranges))]
				hint = rng.Pick(x.lo-1, x.lo, x.hi-1, x.hi, x.hi+1)
				if hint < 0 {
					hint = 65534
				}
				if hint > 65535 {
					hint = 65535
				}
			}
		default:
			hint = rng.Intn(65536)
		}
		list := make([]p9p.Tag, 0, len(used))
		for t := range used {
			list = append(list, t)
		}
		c := sx.L(sx.Sym("alloc"), sx.List(rs), sx.I(int64(hint)))
		t, err := p9p.VerifAllocateTag(list, p9p.Tag(hint))
		if err != nil {
			cls := "allocfail"
			if err.Error() == "tag pool depleted" {
				cls = "depleted"
			}
			r.Case(c, sx.L(sx.Sym("err"), sx.Sym(cls)), "alloc:err", true)
			if len(used) < 65535 {
				r.Fail("transport.allocateTag:refuses-free-pool", fmt.Sprintf("allocateTag failed (%v) although only %d of 65535 tags are in use", err, len(used)), c, nil)
			}
			continue
		}
		r.Case(c, sx.L(sx.Sym("ok"), sx.U(uint64(t))), fmt.Sprintf("alloc:ok:used>=%d", bucket(len(used))), true)
		if t == p9p.NOTAG {
			r.Fail("transport.allocateTag:notag", "allocateTag returned the reserved tag 0xFFFF", c, nil)
		}
		if used[t] {
			r.Fail("transport.allocateTag:duplicate-tag", fmt.Sprintf("allocateTag returned %d which is in use", t), c, nil)
		}
	}
}

func bucket(n int) int {
	for _, b := range []int{65000, 10000, 1000, 100, 1} {
		if n >= b {
			return b
		}
	}
	return 0
}

func main() {
	mode := flag.String("mode", "full", "full | race (concurrent schedules only, for the -race build)")
	r := rep.Open()
	defer r.Close()
	r.Samples = []string{}    // never null in stats.json
	log.SetOutput(io.Discard) // the client logs every fatal read error; the scripts cause many
	r.Rule = "sched: one client session against a scripted fake server; per case k<=64 simultaneously pending calls, PRNG-chosen reply order / reply kind (right type, Rerror, wrong type) / cancellations / failed writes / late replies to abandoned tags; non-trivial when >=2 calls were pending at once or replies were reordered. wrap: one session with >=70000 (quick) / 200000 (thorough) requests and up to ~1000 long-outstanding tags. alloc: VerifAllocateTag on random pools (empty, blocks, nearly full, full) x hints. Distinct by canonical case text."
	rng := prng.New(r.Seed)
	if *mode == "race" {
		rng = prng.New(r.Seed + 7777)
		n := r.N(10, 300)
		for i := 0; i < n && totalFails < 5; i++ {
			schedule(r, rng.Fork(), true)
		}
		req, ml := wrapHistory(r, rng.Fork(), r.N(3000, 70000), false)
		r.Extra["race_mode_wrap_requests"] = req
		r.Extra["race_mode_max_long_outstanding"] = ml
		return
	}
	allocCases(r, rng.Fork(), r.N(400, 6000))
	n := r.N(150, 3000)
	for i := 0; i < n && totalFails < 5; i++ {
		schedule(r, rng.Fork(), i%2 == 1)
	}
	req, ml := wrapHistory(r, rng.Fork(), r.N(70000, 200000), false)
	r.Extra["wrap_requests"] = req
	r.Extra["wrap_max_long_outstanding"] = ml
	if r.Thorough() {
		req2, _ := wrapHistory(r, rng.Fork(), 1000, true)
		r.Extra["deplete_requests"] = req2
	}
}
