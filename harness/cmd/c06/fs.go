package main

// fs mode: the Handler is the real p9p.SSession(p9p.SFileSys(mock)) behind the
// gate handler, with a mock FileSys whose Attach / Walk can be held inside the
// file-system call.  Used for the last clause of C11: after Stop, and once
// in-flight handlers have returned, no fid is bound and every entry the
// session held has been released exactly once.

import (
	"context"
	"errors"
	"fmt"
	"sort"
	"sync"

	p9p "github.com/frobnitzem/go-p9p"

	"verifharness/internal/prng"
	"verifharness/internal/sx"
)

type mockFS struct {
	mu      sync.Mutex
	hold    bool
	gate    chan struct{}
	blocked int
	ents    []*mockEnt
	nextQ   uint64
}

type mockEnt struct {
	fs       *mockFS
	id       uint64
	releases int // Clunk + Remove calls
}

func newMockFS() *mockFS { return &mockFS{gate: make(chan struct{})} }

func (fs *mockFS) maybeHold() {
	fs.mu.Lock()
	h := fs.hold
	if h {
		fs.blocked++
	}
	fs.mu.Unlock()
	if h {
		<-fs.gate
		fs.mu.Lock()
		fs.blocked--
		fs.mu.Unlock()
	}
}

func (fs *mockFS) nBlocked() int {
	fs.mu.Lock()
	defer fs.mu.Unlock()
	return fs.blocked
}

func (fs *mockFS) setHold(h bool) {
	fs.mu.Lock()
	fs.hold = h
	fs.mu.Unlock()
}

func (fs *mockFS) newEnt() *mockEnt {
	fs.mu.Lock()
	defer fs.mu.Unlock()
	fs.nextQ++
	e := &mockEnt{fs: fs, id: fs.nextQ}
	fs.ents = append(fs.ents, e)
	return e
}

func (fs *mockFS) RequireAuth(ctx context.Context) bool { return false }
func (fs *mockFS) Auth(ctx context.Context, uname, aname string) (p9p.AuthFile, error) {
	return nil, errors.New("no auth")
}
func (fs *mockFS) Attach(ctx context.Context, uname, aname string, af p9p.AuthFile) (p9p.Dirent, error) {
	fs.maybeHold()
	return fs.newEnt(), nil
}

func (e *mockEnt) Qid() p9p.Qid { return p9p.Qid{Type: p9p.QTDIR, Path: e.id} }
func (e *mockEnt) OpenDir(ctx context.Context) (p9p.ReadNext, error) {
	return nil, errors.New("not supported")
}
func (e *mockEnt) Walk(ctx context.Context, names ...string) ([]p9p.Qid, p9p.Dirent, error) {
	e.fs.maybeHold()
	cur := e
	var qids []p9p.Qid
	for range names {
		cur = e.fs.newEnt()
		qids = append(qids, cur.Qid())
	}
	if len(names) == 0 {
		cur = e.fs.newEnt()
	}
	return qids, cur, nil
}
func (e *mockEnt) Create(ctx context.Context, name string, perm uint32, mode p9p.Flag) (p9p.Dirent, p9p.File, error) {
	return nil, nil, errors.New("not supported")
}
func (e *mockEnt) Open(ctx context.Context, mode p9p.Flag) (p9p.File, error) {
	return nil, errors.New("not supported")
}
func (e *mockEnt) release() error {
	e.fs.mu.Lock()
	e.releases++
	e.fs.mu.Unlock()
	return nil
}
func (e *mockEnt) Remove(ctx context.Context) error { return e.release() }
func (e *mockEnt) Clunk(ctx context.Context) error  { return e.release() }
func (e *mockEnt) Stat(ctx context.Context) (p9p.Dir, error) {
	return p9p.Dir{}, errors.New("not supported")
}
func (e *mockEnt) WStat(ctx context.Context, stat p9p.Dir) error { return errors.New("not supported") }

// ---- the actual result of a handler, as the acceptor's (fin ...) argument

func resultSexp(res hresult) (sx.S, []byte) {
	if res.err != nil {
		switch v := res.err.(type) {
		case p9p.MessageRerror:
			return sx.L(sx.Sym("emsg"), sx.Str(v.Ename)), payloadOf(p9p.MessageRerror{Ename: v.Ename})
		case *p9p.MessageRerror:
			return sx.L(sx.Sym("emsg"), sx.Str(v.Ename)), payloadOf(p9p.MessageRerror{Ename: v.Ename})
		default:
			return sx.L(sx.Sym("err"), sx.Str(v.Error())), payloadOf(p9p.MessageRerror{Ename: v.Error()})
		}
	}
	pb := payloadOf(res.msg)
	return sx.L(sx.Sym("msg"), sx.B(pb)), pb
}

// newly returned handlers since the last call (fs mode)
func (r *runner) newlyDone() []*inv {
	r.w.mu.Lock()
	defer r.w.mu.Unlock()
	var out []*inv
	for _, iv := range r.w.invs {
		if iv.done && !iv.doneSeen {
			iv.doneSeen = true
			out = append(out, iv)
		}
	}
	return out
}

// perform act, wait for quiescence, then name the step after what returned
func (r *runner) fsStep(lab string, act func()) {
	act()
	if !waitQuiet(quietMax) {
		r.hang = true
		r.fail("serve.no-quiescence:"+lab, "the process did not become quiescent within 30 s")
		return
	}
	done := r.newlyDone()
	action := sx.L(sx.Sym("nop"))
	var fins []sx.S
	for _, iv := range done {
		s, pb := resultSexp(iv.res)
		if iv.rid >= 0 {
			r.reqs[iv.rid].resBytes = pb
			r.reqs[iv.rid].released = true
		}
		fins = append(fins, sx.L(sx.Sym("fin"), sx.I(int64(iv.rid)), s))
		if iv.rid >= 0 {
			r.comp = append(r.comp, sx.L(sx.Sym("fin"), sx.I(int64(iv.rid))))
		} else {
			r.compSkip = true
		}
	}
	if len(fins) > 1 {
		r.compSkip = true // several handlers returned in one step: their order is not observed
	}
	if len(fins) == 1 {
		action = fins[0]
		lab += "+return"
	} else if len(fins) > 1 {
		action = sx.List(append([]sx.S{sx.Sym("multi")}, fins...))
		lab += "+returns"
	}
	r.observe(action, lab, nil)
}

func runFS(rng *prng.R, directed bool) *runner {
	fs := newMockFS()
	var sess p9p.Session
	r := start(rng, false, func(w *world) p9p.Handler {
		sess = p9p.SFileSys(fs)
		return p9p.SSession(sess)
	})
	r.profile = "fs"
	if directed {
		r.profile = "fs-directed"
	}
	r.maxDepth = 8
	w := r.w
	sendMsg := func(tag uint16, msg p9p.Message) *req {
		rid := len(r.reqs)
		q := &req{rid: rid, tag: tag, class: "normal", payload: payloadOf(msg)}
		w.mu.Lock()
		w.sent[string(q.payload)] = rid
		w.mu.Unlock()
		r.reqs = append(r.reqs, q)
		w.cn.feed(frameBytes(tag, msg))
		r.observe(sx.L(sx.Sym("send"), sx.I(int64(rid)), sx.U(uint64(tag)), sx.L(sx.Sym("req"), sx.B(q.payload))), "send-normal", q)
		switch m := msg.(type) {
		case p9p.MessageTattach:
			r.comp = append(r.comp, sx.L(sx.Sym("send"), sx.I(int64(rid)), sx.U(uint64(tag)), sx.Sym("attach"), sx.U(uint64(m.Fid))))
		case p9p.MessageTwalk:
			r.comp = append(r.comp, sx.L(sx.Sym("send"), sx.I(int64(rid)), sx.U(uint64(tag)), sx.Sym("walk"), sx.U(uint64(m.Fid)), sx.U(uint64(m.Newfid)), sx.I(int64(len(m.Wnames)))))
		default:
			r.compSkip = true
		}
		return q
	}
	openGate := func(q *req) {
		iv := w.byRid[q.rid]
		if iv == nil {
			return
		}
		q.released = true
		r.fsStep("open-gate", func() { iv.gate <- hresult{} })
	}
	nWalk := 1 + rng.Intn(4)
	attachHeld := !directed && rng.Intn(3) == 0
	// attach fid 0
	a := sendMsg(1, p9p.MessageTattach{Fid: 0, Afid: p9p.NOFID, Uname: "u", Aname: ""})
	fs.setHold(attachHeld)
	openGate(a)
	var walks []*req
	if !attachHeld {
		for i := 0; i < nWalk; i++ {
			var names []string
			if rng.Bool() {
				names = []string{fmt.Sprintf("d%d", i)}
			}
			from := p9p.Fid(0)
			if i > 0 && rng.Intn(3) == 0 {
				from = p9p.Fid(rng.Intn(i) + 1) // may or may not be bound yet
			}
			walks = append(walks, sendMsg(uint16(10+i), p9p.MessageTwalk{Fid: from, Newfid: p9p.Fid(i + 1), Wnames: names}))
		}
		// some walks complete, some are held inside the file system, some stay at the handler gate
		for _, q := range walks {
			switch rng.Intn(3) {
			case 0:
				fs.setHold(false)
				openGate(q)
			case 1:
				fs.setHold(true)
				openGate(q)
			}
			if directed {
				break
			}
		}
		if directed && fs.nBlocked() == 0 {
			fs.setHold(true)
			if !walks[0].released {
				openGate(walks[0])
			}
		}
	}
	// the fault
	switch rng.Intn(3) {
	case 0:
		r.ctxCancel()
		r.comp = append(r.comp, sx.L(sx.Sym("fault"), sx.Sym("ctx")))
	case 1:
		r.connerr(true)
		r.comp = append(r.comp, sx.L(sx.Sym("fault"), sx.Sym("conn")))
	default:
		r.connerr(false)
		r.comp = append(r.comp, sx.L(sx.Sym("fault"), sx.Sym("conn")))
	}
	// everything in flight returns, one at a time
	fs.setHold(true)
	for i := 0; i < 100 && !r.hang; i++ {
		if fs.nBlocked() > 0 {
			r.fsStep("release-fs", func() { fs.gate <- struct{}{} })
			continue
		}
		var held *req
		for _, q := range r.reqs {
			if q.dispatched && !q.released {
				held = q
				break
			}
		}
		if held == nil {
			break
		}
		openGate(held)
	}
	if !r.hang {
		r.checkShutdown()
		// after Stop, and once in-flight handlers have returned: nothing bound, every entry released once
		tab, ok := p9p.VerifFidTable(sess)
		if !ok {
			r.fail("harness.no-fid-table", "VerifFidTable did not recognise the session")
		}
		w.mu.Lock()
		stopped := w.stops > 0
		w.mu.Unlock()
		if stopped {
			for _, e := range tab {
				if e.Bound || e.Locked {
					r.fail("c11.bound-after-stop", fmt.Sprintf("fid %d is still bound (bound=%v locked=%v) after Stop although every handler has returned", e.Fid, e.Bound, e.Locked))
				}
			}
			fs.mu.Lock()
			for _, e := range fs.ents {
				if e.releases != 1 {
					fs.mu.Unlock()
					r.fail(fmt.Sprintf("c11.entry-released-%d-times", e.releases), fmt.Sprintf("entry %d handed to the session was released %d times", e.id, e.releases))
					fs.mu.Lock()
				}
			}
			fs.mu.Unlock()
		}
		// the session-level history of this run and what it left behind, for the composed model
		// (Model/ServeSession.v through Run/RunC11.v): only when every dispatched handler has returned
		allBack := true
		for _, q := range r.reqs {
			iv := w.byRid[q.rid]
			if !q.dispatched || iv == nil {
				allBack = false
				continue
			}
			w.mu.Lock()
			if !iv.done {
				allBack = false
			}
			w.mu.Unlock()
		}
		if ok && allBack && !r.compSkip {
			var bound []int
			for _, e := range tab {
				if e.Bound || e.Locked {
					bound = append(bound, int(e.Fid))
				}
			}
			sort.Ints(bound)
			var rel []int
			fs.mu.Lock()
			for _, e := range fs.ents {
				rel = append(rel, e.releases)
			}
			fs.mu.Unlock()
			sort.Ints(rel)
			bs := []sx.S{sx.Sym("bound")}
			for _, f := range bound {
				bs = append(bs, sx.I(int64(f)))
			}
			rs := []sx.S{sx.Sym("rel")}
			for _, n := range rel {
				rs = append(rs, sx.I(int64(n)))
			}
			w.mu.Lock()
			nst := w.stops
			w.mu.Unlock()
			r.composed = sx.String(sx.List(append([]sx.S{sx.Sym("composed")}, r.comp...)))
			r.composedObs = sx.String(sx.L(sx.Sym("final"), sx.List(bs), sx.List(rs), sx.I(int64(nst))))
		}
	}
	// teardown
	fs.setHold(false)
	for fs.nBlocked() > 0 {
		select {
		case fs.gate <- struct{}{}:
		default:
		}
		waitQuiet(quietMax)
	}
	r.teardown()
	return r
}
