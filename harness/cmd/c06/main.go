// C06 / C07 / C11 harness: p9p.ServeConn over a scripted in-memory net.Conn
// with a gate Handler.  Schedules of environment actions (frames, handler
// returns, write completions, read errors, peer close, context cancel) are
// generated from one PRNG seed and executed in a CHILD PROCESS (a goroutine
// panic or a hang of the code under test is then an observation); after every
// action the harness waits for quiescence and records what it saw.  Each
// schedule with its observations is one case for the Coq model's acceptor
// (Run/RunC06.v), and the direct oracles written from the property texts run
// on the harness's own client-side bookkeeping.
package main

import (
	"bufio"
	"encoding/json"
	"flag"
	"fmt"
	"io"
	"log"
	"os"
	"os/exec"
	"strconv"
	"strings"
	"time"

	"verifharness/internal/prng"
	"verifharness/internal/rep"
	"verifharness/internal/sx"
)

var (
	childFlag = flag.Bool("child", false, "run cases (internal)")
	fromFlag  = flag.Int("from", 0, "first case index (child)")
	toFlag    = flag.Int("to", 0, "one past the last case index (child)")
	propFlag  = flag.String("prop", "C06", "C06|C07|C11: selects the schedule profile")
)

var firstCase string

type caseOut struct {
	Case  string         `json:"case"`
	Label string         `json:"label"`
	NT    bool           `json:"nt"`
	Fails []failure2     `json:"fails"`
	Steps int            `json:"steps"`
	Hang  bool           `json:"hang"`
	Stats map[string]int `json:"stats"`
	// fs mode: a second case, the session-level history for the composed model, and its observation
	Composed    string `json:"composed,omitempty"`
	ComposedObs string `json:"composed_obs,omitempty"`
}
type failure2 struct{ Key, What string }

func caseRng(seed uint64, idx int) *prng.R {
	return prng.New(seed*1000003 + uint64(idx)*7919 + 17)
}

// ---------------------------------------------------------------- random schedules

type profile struct {
	name     string
	midFault bool // inject the fault somewhere in the middle
	wFlush   int  // weight of flush actions
	wDup     int
	steps    int
}

func (r *runner) unprocessed() int {
	n := 0
	for _, q := range r.reqs {
		if !q.dispatched && q.replies == 0 {
			n++
		}
	}
	return n
}

func (r *runner) classify(tag uint16) (string, *req) {
	var last *req
	certain := false
	for _, q := range r.reqs {
		if q.tag == tag && q.replies == 0 && !(q.flushedBy != nil && q.flushedBy.ackTaken) && q.class != "dup" {
			last = q
			if q.dispatched && !q.released && q.flushedBy == nil && !q.maybeFlushed {
				certain = true
			}
		}
	}
	switch {
	case last == nil:
		return "free", nil
	case certain:
		return "held", last
	default:
		return "grey", last
	}
}

func (r *runner) sendOn(tag uint16, flush bool, oldtag uint16) {
	// exact: the serve loop is certainly idle, so this frame is processed within this step and the
	// client-side view of which tags are outstanding coincides with the server's
	exact := !r.faulted && (!r.gated || (!r.w.cn.writePending() && r.unprocessed() == 0))
	st, _ := r.classify(tag)
	class := map[string]string{"free": "normal", "held": "dup", "grey": "grey"}[st]
	var victim *req
	if flush {
		var vst string
		vst, victim = r.classify(oldtag)
		if class == "normal" {
			class = "flush"
		}
		if vst == "grey" && class == "flush" {
			class = "grey"
		}
	}
	if !exact {
		class = "grey"
	}
	if class == "dup" {
		r.nDup++
	}
	r.send(tag, flush, oldtag, class, victim, r.rng.Intn(6) == 0)
}

func (r *runner) randomStep(p profile, allowFault bool) {
	g := r.rng
	run := r.running()
	wp := r.gated && r.w.cn.writePending()
	canSend := r.unprocessed() < 3 && !r.readFailed()
	type choice struct {
		w int
		f func()
	}
	var cs []choice
	add := func(w int, f func()) {
		if w > 0 {
			cs = append(cs, choice{w, f})
		}
	}
	if canSend {
		if len(run) < r.maxDepth {
			add(10, func() { r.sendOn(r.freeTag(), false, 0) })
		}
		if len(run) > 0 {
			add(p.wDup, func() { r.sendOn(run[g.Intn(len(run))].tag, false, 0) })
			add(p.wFlush, func() { // flush a request whose handler is running
				v := run[g.Intn(len(run))]
				r.nFlushRunning++
				r.sendOn(r.freeTag(), true, v.tag)
			})
			add(p.wDup/3, func() { // a flush that itself reuses an outstanding tag
				r.sendOn(run[g.Intn(len(run))].tag, true, run[g.Intn(len(run))].tag)
			})
		}
		add(1+p.wFlush/3, func() { r.sendOn(r.freeTag(), true, uint16(g.Intn(30))) }) // mostly unknown oldtag
		add(1, func() { t := r.freeTag(); r.sendOn(t, true, t) })                     // flush naming its own tag
		// reuse the tag of a flushed request whose handler is still running
		var reusable []*req
		for _, q := range run {
			if q.flushedBy != nil && q.flushedBy.ackTaken {
				if st, _ := r.classify(q.tag); st == "free" {
					reusable = append(reusable, q)
				}
			}
		}
		if len(reusable) > 0 {
			add(3*p.wFlush, func() { r.nReuse++; r.sendOn(reusable[g.Intn(len(reusable))].tag, false, 0) })
		}
		// any recently used tag (grey cases: finished, reply pending)
		if len(r.reqs) > 0 {
			add(1, func() { r.sendOn(r.reqs[g.Intn(len(r.reqs))].tag, g.Intn(4) == 0, uint16(g.Intn(24))) })
		}
	}
	if len(run) > 0 {
		add(12, func() {
			q := run[g.Intn(len(run))]
			r.finish(q, r.w.byRid[q.rid].ctx.Err() != nil && g.Bool())
		})
	}
	if !r.readFailed() {
		// a read time-out / temporary error: the server must carry on as if nothing had happened
		add(2, func() {
			k := g.Intn(3)
			r.readNetErr(k != 2, k != 1, 1+g.Intn(3))
		})
	}
	if wp {
		add(14, r.wok)
		if allowFault {
			add(2, r.wfail)
			add(1, r.wtimeout)
		}
	}
	if allowFault {
		if !r.readFailed() {
			add(1, func() { r.connerr(g.Bool()) })
			add(1, func() { r.readNetErr(false, false, 1) })
			add(1, func() { // the fault strikes in the middle of a frame (any byte offset)
				fb := frameBytes(r.freeTag(), r.newRequestMsg(100000+len(r.steps)))
				r.w.cn.feed(fb[:1+g.Intn(len(fb)-1)])
				r.observe(sx.L(sx.Sym("nop")), "partial-frame-before-fault", nil)
				r.connerr(g.Bool())
			})
		}
		if r.w.ctx.Err() == nil {
			add(1, r.ctxCancel)
		}
	}
	if len(cs) == 0 {
		return
	}
	tot := 0
	for _, c := range cs {
		tot += c.w
	}
	x := g.Intn(tot)
	for _, c := range cs {
		if x < c.w {
			c.f()
			return
		}
		x -= c.w
	}
}

func runRandom(rng *prng.R, prop string, thorough bool, sess bool) *runner {
	p := profile{name: "c06", wFlush: 2, wDup: 3}
	switch prop {
	case "C07":
		p = profile{name: "c07", wFlush: 9, wDup: 1}
	case "C11":
		p = profile{name: "c11", wFlush: 3, wDup: 2, midFault: true}
	}
	if rng.Intn(5) == 0 {
		p.midFault = !p.midFault
	}
	gated := rng.Intn(3) != 0
	r := start(rng, gated, nil, sess)
	r.profile = p.name
	if sess {
		r.profile += "+sess"
	}
	r.maxDepth = rng.Pick(1, 2, 4, 8, 8, 16, 32)
	n := 8 + rng.Intn(40)
	if thorough {
		n = 8 + rng.Intn(120)
	}
	faultAt := -1
	if p.midFault {
		faultAt = rng.Intn(n)
	}
	for i := 0; i < n && !r.hang; i++ {
		r.randomStep(p, p.midFault && i >= faultAt)
	}
	r.finishRun()
	return r
}

// common end of every schedule: drain; in a fault-free run check that every
// request was answered, then shut down by a fault; then the shutdown oracles
func (r *runner) finishRun() {
	r.drain()
	if !r.faulted && !r.hang {
		r.checkAnswered()
		k := r.rng.Intn(4)
		if r.shutdownEOF {
			k = 1
		}
		if r.shutdownNetErr {
			k = 3
		}
		switch k {
		case 3:
			r.readNetErr(false, false, 1)
		case 0:
			r.ctxCancel()
		case 1:
			r.connerr(true)
		default:
			r.connerr(false)
		}
		r.drain()
	}
	if !r.hang {
		r.checkShutdown()
	}
	r.teardown()
}

// ---------------------------------------------------------------- directed schedules

// D6 shape: the writer is inside conn.Write, a second completion is taken by
// the loop (now blocked in its inner send), then the write fails.
func runWriteFailWhileCompleting(rng *prng.R, timeout bool) *runner {
	r := start(rng, true, nil)
	r.profile = "directed-wfail-while-completing"
	r.maxDepth = 4
	r.sendOn(1, false, 0)
	r.sendOn(2, false, 0)
	if len(r.running()) == 2 {
		r.finish(r.reqs[0], false) // reply handed to conn.Write, which blocks
		r.finish(r.reqs[1], false) // loop takes the completion, blocks sending to the busy writer
		if r.w.cn.writePending() {
			if timeout {
				r.wtimeout()
			} else {
				r.wfail()
			}
		}
	}
	r.finishRun()
	return r
}

// D5 shape: flush a running request, reuse its tag, let the flushed handler
// return late.  Whether the late completion or ctx.Done wins the handler
// goroutine's select is the Go runtime's (uniformly random) choice, hence
// many rounds on one connection.
func runFlushReuseLate(rng *prng.R, rounds int) *runner {
	r := start(rng, rng.Bool(), nil)
	r.profile = "directed-flush-reuse-late"
	r.maxDepth = 4
	for i := 0; i < rounds && !r.hang && len(r.fails) == 0; i++ {
		tag := uint16(10 + i%3)
		ftag := uint16(100 + i%5)
		r.sendOn(tag, false, 0)
		old := r.reqs[len(r.reqs)-1]
		r.nFlushRunning++
		r.sendOn(ftag, true, tag)
		for r.gated && r.w.cn.writePending() {
			r.wok()
		}
		r.nReuse++
		r.sendOn(tag, false, 0)
		nw := r.reqs[len(r.reqs)-1]
		if !old.dispatched || !nw.dispatched {
			break
		}
		r.finish(old, rng.Bool())
		for r.gated && r.w.cn.writePending() {
			r.wok()
		}
		r.finish(nw, false)
		for r.gated && r.w.cn.writePending() {
			r.wok()
		}
	}
	r.finishRun()
	return r
}

// A long history on one connection: k handlers that ignore cancellation are flushed early, then n filler
// requests are served, then the k tags are reused and only then the flushed handlers return.  Any scheme
// that identifies a request by something narrower than the request itself (a counter that wraps, a hash)
// collides at some distance; the model identifies requests by their number, so a stale completion that is
// taken for the reuser's shows up as a rejected history and as c07.reply-after-flush-ack.
func runLongCollision(rng *prng.R, n int, k int) *runner {
	r := start(rng, false, nil)
	r.profile = fmt.Sprintf("long-flush-reuse/%d", n)
	r.maxDepth = 64
	r.shutdownEOF = true
	var victims, reusers []*req
	for i := 0; i < k && !r.hang; i++ {
		r.sendOn(uint16(10+i), false, 0)
		victims = append(victims, r.reqs[len(r.reqs)-1])
	}
	for i := 0; i < k && !r.hang; i++ {
		r.nFlushRunning++
		r.sendOn(uint16(200+i), true, uint16(10+i))
	}
	if !r.hang {
		r.bulk(n, 0x4000, 0x4000)
	}
	for i := 0; i < k && !r.hang; i++ {
		r.nReuse++
		r.sendOn(uint16(10+i), false, 0)
		reusers = append(reusers, r.reqs[len(r.reqs)-1])
	}
	// the flushed handlers return late, one per step (k handlers returning in one step would make the
	// acceptor explore every subset of them)
	for _, q := range victims {
		if !r.hang && q.dispatched && !q.released {
			r.finish(q, false)
		}
	}
	for _, q := range reusers {
		if !r.hang && q.dispatched && !q.released {
			r.finish(q, false)
		}
	}
	r.finishRun()
	return r
}

// the distances swept: a wrap of a counter of the given width counting dispatches (width - k), counting
// every request received (width - 2k, the k flushes are requests too), and their neighbours
func longDistances(thorough bool) []int {
	const k = 16
	out := []int{65536 - k, 256 - k}
	if thorough {
		out = append(out, 65536-2*k, 256-2*k, 65536-k-1, 65536-k+1, 256-k-1, 256-k+1, 65536, 4096-k)
	}
	return out
}

// Read errors that are net.Errors: the three kinds conn.read retries (time-out and/or temporary), once and
// several times in a row, each followed by a request that must be read, dispatched and answered as if
// nothing had happened; finally the kind that reports neither, which must shut the connection down.
func runReadRetry(rng *prng.R, sess bool) *runner {
	r := start(rng, rng.Bool(), nil, sess)
	r.profile = "read-neterr"
	r.maxDepth = 32
	r.shutdownNetErr = true
	for _, k := range perm(rng, 6) {
		if r.hang {
			break
		}
		r.sendOn(r.freeTag(), false, 0)
		r.readNetErr(k%3 != 2, k%3 != 1, 1+2*(k/3))
		r.sendOn(r.freeTag(), false, 0)
		if run := r.running(); len(run) > 0 && rng.Bool() {
			r.finish(run[rng.Intn(len(run))], false)
		}
		for r.gated && r.w.cn.writePending() && rng.Bool() {
			r.wok()
		}
	}
	r.finishRun()
	return r
}

// ---------------------------------------------------------------- child

func runCase(seed uint64, idx int, prop string, thorough bool) caseOut {
	rng := caseRng(seed, idx)
	var r *runner
	switch {
	case idx == 0:
		r = runWriteFailWhileCompleting(rng, false)
	case idx == 7:
		r = runWriteFailWhileCompleting(rng, true)
	case prop == "C06" && (idx == 2 || idx == 3 || (thorough && idx >= 20 && idx < 26)):
		// more requests outstanding at once than any fixed pool of handlers
		depth := 129 + rng.Intn(172)
		if thorough && idx >= 22 {
			depth = 300 + rng.Intn(1701)
		}
		r = runDeep(rng, depth, idx%2 == 1)
	case prop == "C06" && (idx == 4 || idx == 5 || idx == 6 || (idx >= 8 && idx < 14) || (thorough && idx >= 26 && idx < 40)):
		r = runReadOverlap(rng)
	case prop == "C11" && (idx == 3 || idx == 5 || idx == 9 || idx == 11 || (thorough && idx >= 20 && idx < 36 && idx%4 != 2)):
		r = runSessAllKindsFault(rng, idx%4)
	case prop == "C11" && idx >= 2 && idx%4 == 2:
		r = runFS(rng, idx == 2)
	case (prop == "C06" && (idx == 14 || idx == 15)) || (prop == "C11" && (idx == 13 || idx == 15)):
		r = runReadRetry(rng, idx == 15)
	case prop == "C07" && idx >= 8 && idx-8 < len(longDistances(thorough)):
		r = runLongCollision(rng, longDistances(thorough)[idx-8], 16)
	case idx == 1 || (idx < 6 && prop == "C07"):
		r = runFlushReuseLate(rng, 48)
	default:
		r = runRandom(rng, prop, thorough, idx%4 == 1)
	}
	out := caseOut{Case: sx.String(r.caseSexp()), Steps: len(r.steps), Hang: r.hang}
	lab := r.profile
	if r.gated {
		lab += "/gated"
	} else {
		lab += "/auto"
	}
	if r.faultKind != "" {
		lab += "/" + r.faultKind
	}
	out.Label = lab
	out.Composed, out.ComposedObs = r.composed, r.composedObs
	out.NT = len(r.steps) >= 4
	for _, f := range r.fails {
		out.Fails = append(out.Fails, failure2{f.key, f.what})
	}
	out.Stats = map[string]int{"requests": len(r.reqs), "flush_of_running": r.nFlushRunning, "tag_reuse_after_flush": r.nReuse,
		"dup_tag_sends": r.nDup, "handler_returns_after_cancel": r.nLateFin, "steps": len(r.steps), "batched_filler_requests": r.nFillers}
	for _, l := range r.label {
		out.Stats["step:"+l]++
	}
	return out
}

func childMain(seed uint64, tier string) {
	log.SetOutput(io.Discard)
	w := bufio.NewWriter(os.Stdout)
	for i := *fromFlag; i < *toFlag; i++ {
		fmt.Fprintf(w, "B %d\n", i)
		w.Flush()
		co := runCase(seed, i, *propFlag, tier == "thorough")
		b, _ := json.Marshal(co)
		fmt.Fprintf(w, "C %s\n", b)
		w.Flush()
		if co.Hang {
			// a goroutine of the code under test is spinning or stuck: this process cannot become
			// quiescent any more; the parent continues with a fresh child
			os.Exit(3)
		}
	}
	fmt.Fprintln(w, "D")
	w.Flush()
}

// ---------------------------------------------------------------- parent

func main() {
	// the child shares the flag set; rep.Open parses flags
	for _, a := range os.Args[1:] {
		if a == "-child" || a == "--child" {
			flag.String("out", "", "")
			tier := flag.String("tier", "quick", "")
			seed := flag.Uint64("seed", 1, "")
			flag.Parse()
			childMain(*seed, *tier)
			return
		}
	}
	r := rep.Open()
	defer r.Close()
	prop := *propFlag
	n := r.N(240, 5000)
	r.Rule = "schedules of environment actions for ServeConn over a scripted conn and a gate handler, generated online from the seed (profile " + prop + "): requests of 12 kinds with unique bodies on fresh, outstanding (duplicate) and just-flushed tags, Tflush of running / finished / unknown tags, handler returns in any order with message / MessageRerror / plain-error results (also after cancellation), gated conn.Write released ok or failed, read error / peer close / context cancel at a random step, pipelining depth 1..32, frames split at a random byte; two directed shapes (write failure while the loop is handing over a completion; flush + tag reuse + late return, 48 rounds). A case is non-trivial when it has >= 4 steps; distinct by canonical case text. Executed in a child process; quiescence between steps is detected from goroutine states (no timing)."
	totals := map[string]int{}
	crashes, hangs := 0, 0
	from := 0
	for from < n {
		next, crashed := runChild(r, prop, from, n, totals)
		if crashed != "" {
			if strings.HasPrefix(crashed, "hang") {
				hangs++
			} else {
				crashes++
			}
		}
		from = next
	}
	for k, v := range totals {
		r.Extra[k] = v
	}
	if len(r.Samples) == 0 {
		r.Samples = []string{firstCase}
	}
	r.Extra["child_crashes"] = crashes
	r.Extra["child_hangs"] = hangs
}

// runChild runs cases [from,n) in a child; returns the index to continue from
func runChild(r *rep.Report, prop string, from, n int, totals map[string]int) (int, string) {
	cmd := exec.Command(os.Args[0], "-child", "-prop", prop, "-seed", strconv.FormatUint(r.Seed, 10), "-tier", r.Tier,
		"-from", strconv.Itoa(from), "-to", strconv.Itoa(n), "-out", "unused")
	cmd.Env = append(os.Environ(), "GOTRACEBACK=all")
	stdout, _ := cmd.StdoutPipe()
	var stderr strings.Builder
	cmd.Stderr = &tailWriter{b: &stderr, max: 6000}
	if err := cmd.Start(); err != nil {
		panic(err)
	}
	lines := make(chan string, 64)
	go func() {
		sc := bufio.NewScanner(stdout)
		sc.Buffer(make([]byte, 1<<20), 1<<28)
		for sc.Scan() {
			lines <- sc.Text()
		}
		close(lines)
	}()
	cur := from - 1
	done := false
	timedOut := false
	for !done {
		select {
		case l, ok := <-lines:
			if !ok {
				done = true
				break
			}
			switch {
			case strings.HasPrefix(l, "B "):
				cur, _ = strconv.Atoi(l[2:])
			case strings.HasPrefix(l, "C "):
				var co caseOut
				if err := json.Unmarshal([]byte(l[2:]), &co); err != nil {
					panic(err)
				}
				cs := sx.Sym(co.Case)
				if firstCase == "" && co.NT {
					firstCase = co.Case
					if len(firstCase) > 600 {
						firstCase = firstCase[:600] + " ...)"
					}
					firstCase += " => ok"
				}
				r.Case(cs, sx.Sym("ok"), co.Label, co.NT)
				if co.Composed != "" {
					r.Case(sx.Sym(co.Composed), sx.Sym(co.ComposedObs), co.Label+"/composed", true)
				}
				for _, f := range co.Fails {
					r.Fail(f.Key, f.What, cs, map[string]interface{}{"case_index": cur, "profile": co.Label})
				}
				for k, v := range co.Stats {
					totals[k] += v
				}
			case l == "D":
			}
		case <-time.After(180 * time.Second):
			// one case makes no progress for 3 minutes: the per-step quiescence wait (30 s) would have
			// reported first, so this is a livelock / runaway of the code under test
			timedOut = true
			cmd.Process.Kill()
			done = true
		}
	}
	err := cmd.Wait()
	if timedOut {
		r.Fail("c11.child-hang", "the child process running the schedule made no progress for 180 s", sx.Sym(fmt.Sprintf("(case-index %d)", cur)),
			map[string]interface{}{"case_index": cur, "stderr": stderr.String()})
		return cur + 1, "hang"
	}
	if ee, ok := err.(*exec.ExitError); ok && ee.ExitCode() == 3 {
		return cur + 1, "" // the case that did not become quiescent has reported itself
	}
	if err != nil {
		key := "c11.process-crash"
		se := stderr.String()
		if strings.Contains(se, "panic:") {
			key = "c11.process-crash:panic"
		}
		if strings.Contains(se, "DATA RACE") {
			key = "serve.data-race"
		}
		r.Fail(key, "the server process died while running the schedule: "+err.Error(), sx.Sym(fmt.Sprintf("(case-index %d)", cur)),
			map[string]interface{}{"case_index": cur, "stderr": se})
		return cur + 1, "crash"
	}
	return n, ""
}

type tailWriter struct {
	b   *strings.Builder
	max int
}

func (t *tailWriter) Write(p []byte) (int, error) {
	t.b.Write(p)
	if t.b.Len() > 4*t.max {
		s := t.b.String()
		t.b.Reset()
		t.b.WriteString(s[len(s)-t.max:])
	}
	return len(p), nil
}
