package main

// Online schedule generation and execution for one ServeConn run.  Every
// random choice comes from the case's PRNG; the next action is chosen from
// what the harness has itself sent and observed (never from the model).

import (
	"context"
	"encoding/binary"
	"errors"
	"fmt"
	"io"
	"os"
	"sort"
	"time"

	p9p "github.com/frobnitzem/go-p9p"

	"verifharness/internal/prng"
	"verifharness/internal/sx"
)

const quietMax = 30 * time.Second

type req struct {
	rid     int
	tag     uint16
	flush   bool
	oldtag  uint16
	payload []byte
	msg     p9p.Message
	// bookkeeping from the client's point of view
	class           string // "normal", "dup", "flush", "grey"
	dispatched      bool
	released        bool // handler released by the schedule
	resBytes        []byte
	victim          *req // flush: the request it was aimed at (client view), may be nil
	flushedBy       *req // set on the victim
	ackTaken        bool // flush: its reply has been handed to conn.Write
	replies         int
	replyAfterAck   bool
	inFlightAtFault bool
	filler          bool // request of a (bulk ...) step, answered at once by the auto-completing handler
	dispCount       int
	maybeFlushed    bool // a flush naming its tag was sent at a moment when the server's view was not known exactly
}

type failure struct {
	key, what string
}

type runner struct {
	rng                                   *prng.R
	w                                     *world
	gated                                 bool
	reqs                                  []*req
	steps                                 []sx.S
	fails                                 []failure
	label                                 []string
	faulted                               bool
	faultKind                             string
	nonce                                 uint64
	hang                                  bool
	profile                               string
	takesSeen                             int
	cursor                                int // items consumed
	maxDepth                              int
	nFlushRunning, nReuse, nDup, nLateFin int
	nFillers                              int
	sess                                  bool // ServeConn serves p9p.SSession(scripted Session) instead of the gate Handler
	shutdownNetErr                        bool // end the schedule by a read error that is a net.Error reporting neither Timeout nor Temporary
	shutdownEOF                           bool // end the schedule by a peer close (long schedules: a context cancel would cancel 65536 contexts)
	comp                                  []sx.S // fs mode: the session-level history (sends, returns in order, the fault) for the composed model
	compSkip                              bool   // ... not emitted: the order of some returns was not observed
	composed, composedObs                 string // ... the (composed ...) case and what the harness read off the fid table and the mock entries
}

func (r *runner) fail(key, what string) {
	for _, f := range r.fails {
		if f.key == key {
			return
		}
	}
	r.fails = append(r.fails, failure{key, what})
}

func frameBytes(tag uint16, msg p9p.Message) []byte {
	b, err := p9p.NewCodec().Marshal(&p9p.Fcall{Type: msg.Type(), Tag: p9p.Tag(tag), Message: msg})
	if err != nil {
		panic(err)
	}
	out := make([]byte, 4, 4+len(b))
	binary.LittleEndian.PutUint32(out, uint32(len(b)+4))
	return append(out, b...)
}

func start(rng *prng.R, gated bool, inner func(w *world) p9p.Handler, sessMode ...bool) *runner {
	sess := len(sessMode) > 0 && sessMode[0]
	// ServeConn gives version negotiation 1 s of wall-clock; on a stalled machine that can expire before
	// the Rversion is written.  That is not what is checked here: start again (never an alarm).
	var r *runner
	for attempt := 0; attempt < 50; attempt++ {
		w := &world{byRid: map[int]*inv{}, sent: map[string]int{}, filler: map[string]p9p.Message{}}
		w.cn = newConn(w)
		w.ctx, w.cancel = context.WithCancel(context.Background())
		if inner != nil {
			w.inner = inner(w)
		}
		r = &runner{rng: rng, w: w, gated: gated, sess: sess}
		var handler p9p.Handler = gateHandler{w}
		if sess {
			handler = p9p.SSession(&scriptSession{w})
		}
		go func() {
			err := p9p.ServeConn(w.ctx, w.cn, handler)
			w.mu.Lock()
			w.ret, w.retErr = true, err
			w.items = append(w.items, item{kind: itRet})
			w.mu.Unlock()
		}()
		// version negotiation (not part of the schedule)
		w.cn.feed(frameBytes(0xffff, p9p.MessageTversion{MSize: 65536, Version: "9P2000"}))
		if !waitQuiet(quietMax) {
			r.hang = true
		}
		w.mu.Lock()
		ok := len(w.items) == 1 && w.items[0].kind == itTake && w.items[0].payload[0] == byte(p9p.Rversion) && !w.ret
		w.items = nil
		w.stops = 0
		w.mu.Unlock()
		if ok || r.hang {
			break
		}
		r.teardown()
		time.Sleep(time.Duration(attempt+1) * 20 * time.Millisecond)
	}
	r.w.cn.setGated(gated)
	return r
}

// ---- requests and results

func (r *runner) newRequestMsg(rid int) p9p.Message {
	f := p9p.Fid(rid)
	g := r.rng
	if r.sess {
		return r.newSessRequestMsg(rid, g.Intn(11))
	}
	switch g.Intn(13) {
	case 0:
		return p9p.MessageTclunk{Fid: f}
	case 1:
		return p9p.MessageTread{Fid: f, Offset: g.U64() >> uint(g.Intn(64)), Count: uint32(g.Intn(4096))}
	case 2:
		return p9p.MessageTwrite{Fid: f, Offset: g.U64() >> uint(g.Intn(64)), Data: g.Bytes(g.Intn(40))}
	case 3:
		n := g.Intn(4)
		names := make([]string, n)
		for i := range names {
			names[i] = fmt.Sprintf("n%d", g.Intn(100))
		}
		return p9p.MessageTwalk{Fid: f, Newfid: p9p.Fid(g.Intn(1 << 16)), Wnames: names}
	case 4:
		return p9p.MessageTopen{Fid: f, Mode: p9p.Flag(g.Intn(4))}
	case 5:
		return p9p.MessageTstat{Fid: f}
	case 6:
		return p9p.MessageTremove{Fid: f}
	case 7:
		return p9p.MessageTattach{Fid: f, Afid: p9p.NOFID, Uname: "u", Aname: string(g.Bytes(g.Intn(5)))}
	case 8:
		return p9p.MessageTauth{Afid: f, Uname: "user", Aname: ""}
	case 9:
		return p9p.MessageTcreate{Fid: f, Name: fmt.Sprintf("c%d", g.Intn(1000)), Perm: uint32(g.U64()), Mode: p9p.Flag(g.Intn(4))}
	case 10:
		// a second Tversion in mid-session goes to the handler like anything else
		return p9p.MessageTversion{MSize: uint32(rid), Version: "9P2000"}
	case 11:
		// a confused client sending an R-message
		return p9p.MessageRwrite{Count: uint32(rid)}
	default:
		return p9p.MessageTclunk{Fid: f}
	}
}

var errTexts = []string{"", "no such file", "permission denied", "context canceled", "i/o error: \xe2\x98\x83", "x"}

// a result: the (msg, err) pair the handler returns, its sexp, and the bytes
// (type+body) the reply must carry according to the property text
func (r *runner) newResult(honourCancel bool) (hresult, sx.S, []byte) {
	g := r.rng
	r.nonce++
	n := r.nonce
	nb := make([]byte, 8)
	binary.LittleEndian.PutUint64(nb, n)
	k := g.Intn(10)
	if honourCancel {
		k = 9
	}
	switch {
	case k < 5:
		var m p9p.Message
		switch g.Intn(6) {
		case 0:
			m = p9p.MessageRread{Data: append(nb, g.Bytes(g.Intn(64))...)}
		case 1:
			m = p9p.MessageRwrite{Count: uint32(n)}
		case 2:
			m = p9p.MessageRwalk{Qids: []p9p.Qid{{Type: p9p.QTDIR, Version: uint32(g.Intn(9)), Path: n}}}
		case 3:
			m = p9p.MessageRopen{Qid: p9p.Qid{Path: n}, IOUnit: uint32(g.Intn(1 << 20))}
		case 4:
			m = p9p.MessageRattach{Qid: p9p.Qid{Path: n}}
		default:
			// an Rerror returned as the MESSAGE (err == nil)
			m = p9p.MessageRerror{Ename: fmt.Sprintf("as message %d", n)}
		}
		pb := payloadOf(m)
		return hresult{msg: m}, sx.L(sx.Sym("msg"), sx.B(pb)), pb
	default:
		e, s, pb := r.newErr(honourCancel)
		return hresult{err: e}, s, pb
	}
}

func (r *runner) newResultFor(q *req, honourCancel bool) (hresult, sx.S, []byte) {
	if r.sess {
		return r.newSessResult(q, honourCancel)
	}
	return r.newResult(honourCancel)
}

// well-known error values a handler may return as they are, or wrapped
var knownErrs = []error{context.DeadlineExceeded, context.Canceled, os.ErrDeadlineExceeded, timeoutErr{}, io.EOF,
	io.ErrUnexpectedEOF, io.ErrShortWrite, os.ErrNotExist, os.ErrPermission}
var p9pErrs = []error{p9p.ErrNotfound, p9p.ErrPerm, p9p.ErrUnknownfid, p9p.ErrTimeout, p9p.ErrUnknownTag, p9p.ErrDuptag,
	p9p.ErrBadoffset, p9p.ErrClosed, p9p.ErrUnknownMsg}

// an error result: the error value, its sexp ((emsg ENAME) for a MessageRerror value or pointer - it
// passes through - and (err TEXT) with TEXT = Error() for anything else, wrapped 9p errors included)
func (r *runner) newErr(honourCancel bool) (error, sx.S, []byte) {
	g := r.rng
	r.nonce++
	n := r.nonce
	rerr := func(text string) []byte { return payloadOf(p9p.MessageRerror{Ename: text}) }
	plain := func(e error) (error, sx.S, []byte) {
		text := e.Error()
		return e, sx.L(sx.Sym("err"), sx.Str(text)), rerr(text)
	}
	k := g.Intn(12)
	if honourCancel {
		k = 11
	}
	switch {
	case k < 3:
		text := fmt.Sprintf("%s #%d", errTexts[g.Intn(len(errTexts))], n)
		if g.Bool() {
			return p9p.MessageRerror{Ename: text}, sx.L(sx.Sym("emsg"), sx.Str(text)), rerr(text)
		}
		return &p9p.MessageRerror{Ename: text}, sx.L(sx.Sym("emsg"), sx.Str(text)), rerr(text)
	case k < 5:
		// an ordinary error that WRAPS a 9p error: the handler returned the outer error, so the reply
		// must carry the outer error's Error() text, not the wrapped MessageRerror
		inner := []p9p.MessageRerror{{Ename: "file not found"}, {Ename: "permission denied"}, {Ename: fmt.Sprintf("inner %d", n)}}[g.Intn(3)]
		switch g.Intn(5) {
		case 0:
			return plain(fmt.Errorf("open %q #%d: %w", "notes.txt", n, inner))
		case 1:
			return plain(fmt.Errorf("walk #%d: %w", n, &inner))
		case 2:
			return plain(errors.Join(fmt.Errorf("first #%d", n), inner))
		case 3:
			return plain(wrapErr{fmt.Sprintf("custom #%d", n), inner})
		default:
			return plain(fmt.Errorf("outer #%d: %w", n, fmt.Errorf("middle: %w", &inner)))
		}
	case k < 7:
		// well-known error values (time-outs, cancellation, EOF ...), wrapped - and now and then bare:
		// the reply carries the text of the error the handler returned, whatever it Is or wraps
		e := knownErrs[g.Intn(len(knownErrs))]
		switch g.Intn(5) {
		case 0:
			return plain(e)
		case 1:
			return plain(wrapErr{fmt.Sprintf("op #%d", n), e})
		case 2:
			return plain(errors.Join(fmt.Errorf("first #%d", n), e))
		default:
			return plain(fmt.Errorf("read fid %d #%d: %w", g.Intn(100), n, e))
		}
	case k < 9:
		// the package's own error values: bare (MessageRerror values pass through with their Ename;
		// ErrClosed is a plain error) and wrapped (Error() text)
		e := p9pErrs[g.Intn(len(p9pErrs))]
		if g.Intn(3) == 0 && e != p9p.ErrDuptag && e != p9p.ErrUnknownTag { // (bare, those two would be indistinguishable from the loop's own replies)
			if me, ok := e.(p9p.MessageRerror); ok {
				return e, sx.L(sx.Sym("emsg"), sx.Str(me.Ename)), rerr(me.Ename)
			}
			return plain(e)
		}
		return plain(fmt.Errorf("session #%d: %w", n, e))
	default:
		text := fmt.Sprintf("%s #%d", errTexts[g.Intn(len(errTexts))], n)
		if honourCancel {
			text = fmt.Sprintf("context canceled #%d", n)
		}
		if g.Intn(8) == 0 {
			text += string(make([]byte, 300)) // long text with NUL bytes
		}
		return plain(errors.New(text))
	}
}

// wrapErr is an error type of the handler's own that wraps another error
type wrapErr struct {
	msg   string
	inner error
}

func (w wrapErr) Error() string { return w.msg + " (" + w.inner.Error() + ")" }
func (w wrapErr) Unwrap() error { return w.inner }

// ---- client-view bookkeeping

// unanswered requests with this tag whose flush (if any) has not been acknowledged
func (r *runner) holders(tag uint16) []*req {
	var out []*req
	for _, q := range r.reqs {
		if q.tag == tag && q.replies == 0 && !(q.flushedBy != nil && q.flushedBy.ackTaken) && q.class != "dup" {
			out = append(out, q)
		}
	}
	return out
}

// certainly outstanding at the server: dispatched, handler still held by the gate, not flush-acked
func (r *runner) running() []*req {
	var out []*req
	for _, q := range r.reqs {
		if q.dispatched && !q.released {
			out = append(out, q)
		}
	}
	return out
}

func (r *runner) freeTag() uint16 {
	span := 24
	for _, q := range r.reqs {
		if q.replies == 0 {
			span += 2 // always far more tags to choose from than are in use
		}
	}
	for {
		var t uint16
		if r.rng.Intn(4) == 0 {
			t = uint16(r.rng.PickU64(0, 1, 0xfffe, 0xffff, 0x100, 0xff))
		} else {
			t = uint16(r.rng.Intn(span))
		}
		busy := false
		for _, q := range r.reqs {
			if q.tag == t && q.replies == 0 && !(q.flushedBy != nil && q.flushedBy.ackTaken) {
				busy = true
			}
		}
		if !busy {
			return t
		}
	}
}

// ---- one step: perform, wait for quiescence, collect, check

func (r *runner) observe(action sx.S, lab string, sentNow *req) {
	w := r.w
	if !waitQuiet(quietMax) {
		r.hang = true
		r.fail("serve.no-quiescence:"+lab, "the process did not become quiescent within 30 s after "+sx.String(action))
	}
	w.mu.Lock()
	items := append([]item{}, w.items[r.cursor:]...)
	r.cursor = len(w.items)
	var canc []int
	for _, iv := range w.invs {
		if !iv.cancSeen && iv.ctx.Err() != nil {
			iv.cancSeen = true
			if iv.rid >= 0 {
				canc = append(canc, iv.rid)
			}
		}
	}
	anomalies := append([]string{}, w.anomalies...)
	w.anomalies = nil
	w.mu.Unlock()
	for _, a := range anomalies {
		r.fail("c06."+a, "anomaly observed: "+a+" after "+sx.String(action))
	}
	sort.Ints(canc)
	var takes, disp, cancS []sx.S
	type dsp struct {
		rid int
		pl  []byte
	}
	var ds []dsp
	stops := 0
	// the writer and the handler goroutines log concurrently: a frame that frees a tag is handed to
	// the conn before the loop can dispatch a request reusing it, so frames are accounted for first
	for _, it := range items {
		if it.kind == itTake {
			takes = append(takes, sx.L(sx.U(uint64(it.tag)), sx.B(it.payload)))
			r.onTake(it)
		}
	}
	for _, it := range items {
		switch it.kind {
		case itDisp:
			ds = append(ds, dsp{it.rid, it.payload})
			r.onDispatch(it, sentNow)
		case itStop:
			stops++
		}
	}
	sort.SliceStable(ds, func(i, j int) bool { return ds[i].rid < ds[j].rid })
	for _, d := range ds {
		disp = append(disp, sx.L(sx.I(int64(d.rid)), sx.B(d.pl)))
	}
	for _, c := range canc {
		cancS = append(cancS, sx.U(uint64(c)))
	}
	obs := sx.L(sx.Sym("obs"), sx.List(takes), sx.List(disp), sx.List(cancS), sx.I(int64(stops)))
	r.steps = append(r.steps, sx.L(action, obs))
	r.label = append(r.label, lab)
	// step-level expectations that are deterministic at quiescence in a fault-free run
	if sentNow != nil && !r.faulted && !r.hang {
		switch sentNow.class {
		case "normal":
			if !sentNow.dispatched {
				r.fail("c06.not-dispatched", fmt.Sprintf("request %d (tag %d, tag not outstanding) was not handed to the handler", sentNow.rid, sentNow.tag))
			}
		case "dup":
			if sentNow.dispatched {
				r.fail("c06.dup-dispatched", fmt.Sprintf("request %d reuses outstanding tag %d and was dispatched", sentNow.rid, sentNow.tag))
			}
		case "flush":
			if sentNow.victim != nil && sentNow.victim.dispatched {
				iv := w.byRid[sentNow.victim.rid]
				if iv != nil && iv.ctx.Err() == nil && !r.gatedBlocked() {
					r.fail("c07.victim-not-cancelled", fmt.Sprintf("flush %d of tag %d: context of request %d not cancelled", sentNow.rid, sentNow.oldtag, sentNow.victim.rid))
				}
			}
		}
	}
}

// the loop may legitimately not have seen the frame yet when a gated write blocks it
func (r *runner) gatedBlocked() bool { return r.gated && r.w.cn.writePending() }

func (r *runner) onDispatch(it item, sentNow *req) {
	if it.rid < 0 || it.rid >= len(r.reqs) {
		return
	}
	q := r.reqs[it.rid]
	q.dispatched = true
	if q.flush {
		r.fail("c06.flush-dispatched", "a Tflush was handed to the handler")
	}
	if q.class == "grey" {
		q.class = "normal"
	}
	for _, o := range r.reqs {
		if o != q && o.tag == q.tag && o.dispatched && o.replies == 0 && !o.maybeFlushed && !r.faulted &&
			!(o.flushedBy != nil && o.flushedBy.ackTaken) {
			r.fail("c06.dispatched-on-outstanding-tag", fmt.Sprintf("request %d was dispatched although request %d with the same tag %d was still outstanding", q.rid, o.rid, q.tag))
		}
	}
}

func eq(a, b []byte) bool { return string(a) == string(b) }

var plDup = payloadOf(p9p.MessageRerror{Ename: "duplicate tag"})
var plUnknown = payloadOf(p9p.MessageRerror{Ename: "unknown tag"})
var plRflush = payloadOf(p9p.MessageRflush{})

// attribute a written frame to the request it answers, from the client's bookkeeping
func (r *runner) onTake(it item) {
	var cands []*req
	for _, q := range r.reqs {
		if q.tag == it.tag {
			cands = append(cands, q)
		}
	}
	var hit *req
	// 1. somebody's handler result (results are unique by construction)
	// (not every result is unique - Rclunk, a bare context.DeadlineExceeded: prefer a candidate that is
	// still waiting for its reply, oldest first)
	best := -1
	for _, q := range cands {
		if q.resBytes != nil && eq(q.resBytes, it.payload) {
			score := 0
			if q.replies == 0 {
				score = 1
				if !(q.flushedBy != nil && q.flushedBy.ackTaken) {
					score = 2
				}
			}
			if score >= best { // equal: the later request (an earlier one with the same tag was flushed)
				hit, best = q, score
			}
		}
	}
	// a handler may return the very errors the loop itself replies with (ErrDuptag, ErrUnknownTag): a
	// match with a request that has its reply already gives way to the loop's own replies below
	var answered *req
	if best == 0 {
		answered, hit = hit, nil
	}
	if hit == nil && eq(it.payload, plDup) {
		// requests are processed in the order sent: the oldest unanswered, undispatched one with this tag
		for _, q := range cands {
			if !q.dispatched && q.replies == 0 {
				hit = q
				break
			}
		}
		if hit != nil {
			if hit.class == "normal" || hit.class == "flush" {
				r.fail("c06.dup-error-for-free-tag", fmt.Sprintf("request %d on tag %d, which was not outstanding, was answered 'duplicate tag'", hit.rid, hit.tag))
			}
			hit.class = "dup"
			if hit.flush && hit.victim != nil && hit.victim.flushedBy == hit {
				hit.victim.flushedBy = nil
			}
		}
	}
	if hit == nil && (eq(it.payload, plRflush) || eq(it.payload, plUnknown)) {
		for _, q := range cands {
			if q.flush && q.replies == 0 {
				hit = q
				break
			}
		}
		if hit != nil && hit.class == "dup" {
			r.fail("c06.dup-not-rejected", fmt.Sprintf("flush %d reuses outstanding tag %d but was processed", hit.rid, hit.tag))
		}
		if hit != nil && hit.class == "grey" {
			hit.ackTaken = true
			hit.replies++
			return
		}
		if hit != nil {
			v := hit.victim
			if eq(it.payload, plRflush) {
				if v == nil && hit.class == "flush" {
					r.fail("c07.rflush-for-unknown-tag", fmt.Sprintf("flush %d names tag %d which is not outstanding but got Rflush", hit.rid, hit.oldtag))
				}
				if v != nil && v.dispatched {
					seen := false
					for _, c := range it.canc {
						if c == v.rid {
							seen = true
						}
					}
					if !seen {
						r.fail("c07.ack-before-cancel", fmt.Sprintf("Rflush for flush %d was handed to the conn while the context of request %d was not cancelled", hit.rid, v.rid))
					}
				}
			} else if v != nil && hit.class == "flush" && v.dispatched && !v.released && !v.maybeFlushed {
				r.fail("c07.unknown-tag-for-outstanding", fmt.Sprintf("flush %d names outstanding tag %d but got 'unknown tag'", hit.rid, hit.oldtag))
			}
			hit.ackTaken = true
		}
	}
	if hit == nil {
		hit = answered
	}
	if hit == nil {
		r.fail("c06.reply-unattributable", fmt.Sprintf("frame tag=%d payload=%x is not the result of any request with that tag (candidates %s)", it.tag, it.payload, descr(cands)))
		return
	}
	hit.replies++
	if hit.replies > 1 {
		r.fail("c06.second-reply", fmt.Sprintf("request %d (tag %d) was answered twice", hit.rid, hit.tag))
	}
	if hit.flushedBy != nil && hit.flushedBy.ackTaken && hit.resBytes != nil && eq(hit.resBytes, it.payload) {
		hit.replyAfterAck = true
		r.fail("c07.reply-after-flush-ack", fmt.Sprintf("the result of flushed request %d (tag %d) was sent after its flush %d had been acknowledged", hit.rid, hit.tag, hit.flushedBy.rid))
	}
}

// ---- actions

func (r *runner) send(tag uint16, flush bool, oldtag uint16, class string, victim *req, split bool) {
	r.sendMsg(tag, flush, oldtag, class, victim, split, nil)
}

func (r *runner) sendMsg(tag uint16, flush bool, oldtag uint16, class string, victim *req, split bool, forced p9p.Message) {
	rid := len(r.reqs)
	q := &req{rid: rid, tag: tag, flush: flush, oldtag: oldtag, class: class, victim: victim}
	var msg p9p.Message
	var ks sx.S
	if flush {
		msg = p9p.MessageTflush{Oldtag: p9p.Tag(oldtag)}
		ks = sx.L(sx.Sym("flush"), sx.U(uint64(oldtag)))
	} else if forced != nil {
		msg = forced
	} else {
		msg = r.newRequestMsg(rid)
	}
	q.msg = msg
	q.payload = payloadOf(msg)
	if !flush {
		ks = sx.L(sx.Sym("req"), sx.B(q.payload))
		r.w.mu.Lock()
		r.w.sent[string(q.payload)] = rid
		r.w.mu.Unlock()
	}
	if victim != nil && flush {
		if class == "flush" && victim.flushedBy == nil {
			victim.flushedBy = q
		} else if class == "grey" {
			victim.maybeFlushed = true
		}
	}
	if flush && class == "grey" {
		// which request (if any) this flush removes depends on what the server has processed by then
		for _, v := range r.reqs {
			if v.tag == oldtag && v.replies == 0 {
				v.maybeFlushed = true
			}
		}
	}
	r.reqs = append(r.reqs, q)
	fb := frameBytes(tag, msg)
	if split && len(fb) > 1 {
		cut := 1 + r.rng.Intn(len(fb)-1)
		r.w.cn.feed(fb[:cut])
		r.observe(sx.L(sx.Sym("nop")), "partial-frame", nil)
		fb = fb[cut:]
	}
	r.w.cn.feed(fb)
	lab := "send-" + class
	if flush {
		lab = "flush-" + class
	}
	r.observe(sx.L(sx.Sym("send"), sx.I(int64(rid)), sx.U(uint64(tag)), ks), lab, q)
}

func (r *runner) finish(q *req, honour bool) {
	res, s, pb := r.newResultFor(q, honour)
	q.released = true
	q.resBytes = pb
	iv := r.w.byRid[q.rid]
	iv.gate <- res
	lab := "fin"
	if iv.ctx.Err() != nil {
		lab = "fin-cancelled"
		r.nLateFin++
	}
	r.observe(sx.L(sx.Sym("fin"), sx.I(int64(q.rid)), s), lab, nil)
}

func (r *runner) markFault(kind string) {
	if !r.faulted {
		r.faulted = true
		r.faultKind = kind
		for _, q := range r.reqs {
			if q.dispatched && !q.released {
				q.inFlightAtFault = true
			}
		}
	}
}

func (r *runner) wok() {
	r.w.cn.releaseWrite(nil)
	r.observe(sx.L(sx.Sym("wok")), "wok", nil)
}

func (r *runner) wfail() {
	r.markFault("write-error")
	r.w.cn.releaseWrite(errPipe)
	r.observe(sx.L(sx.Sym("wfail")), "wfail", nil)
}

// a write error that reports Timeout()/Temporary(): for the connection it is a write failure like any other
func (r *runner) wtimeout() {
	r.markFault("write-timeout")
	r.w.cn.releaseWrite(timeoutErr{})
	r.observe(sx.L(sx.Sym("wfail")), "wfail-timeout", nil)
}

func (r *runner) connerr(eof bool) {
	if eof {
		r.markFault("peer-close")
		r.w.cn.failRead(io.EOF)
	} else {
		r.markFault("read-error")
		r.w.cn.failRead(errReset)
	}
	r.observe(sx.L(sx.Sym("connerr")), "connerr", nil)
}

// a read error that is a net.Error.  Timeout() || Temporary(): conn.read retries, nothing is shut down and
// the conn goes on delivering (the error is returned by `times` consecutive Reads); neither: fatal like any
// other read error (the conn keeps returning it).
func (r *runner) readNetErr(timeout, temporary bool, times int) {
	b := func(x bool) sx.S { return sx.Bool(x) }
	action := sx.L(sx.Sym("rerr"), sx.Bool(true), b(timeout), b(temporary))
	if timeout || temporary {
		r.w.cn.failReadOnce(netErr{timeout, temporary}, times)
		r.observe(action, fmt.Sprintf("read-neterr-retried:%v/%v", timeout, temporary), nil)
		return
	}
	r.markFault("read-error-net")
	r.w.cn.failRead(netErr{false, false})
	r.observe(action, "read-neterr-fatal", nil)
}

func (r *runner) ctxCancel() {
	r.markFault("ctx-cancel")
	r.w.cancel()
	r.observe(sx.L(sx.Sym("cancel")), "cancel", nil)
}

func (r *runner) readFailed() bool {
	r.w.cn.mu.Lock()
	defer r.w.cn.mu.Unlock()
	return r.w.cn.rerr != nil
}

// drain: release every held handler and every pending write until nothing is left
func (r *runner) drain() {
	for i := 0; i < 10000; i++ {
		if r.hang {
			return
		}
		run := r.running()
		wp := r.gated && r.w.cn.writePending()
		switch {
		case wp && (len(run) == 0 || r.rng.Bool()):
			r.wok()
		case len(run) > 0:
			q := run[r.rng.Intn(len(run))]
			r.finish(q, r.w.byRid[q.rid].ctx.Err() != nil && r.rng.Bool())
		default:
			return
		}
	}
}

// ---- end-of-phase oracles

// fault-free, drained: every request answered exactly once (flushed victims: at most once, never after the ack)
func (r *runner) checkAnswered() {
	for _, q := range r.reqs {
		// a reply other than 'duplicate tag' presupposes that the handler (sess mode: the Session
		// method) was invoked for this request - exactly once (twice is c06.dispatched-twice)
		if !q.flush && !q.filler && q.class != "dup" && q.replies > 0 && !q.dispatched {
			r.fail("c06.answered-without-dispatch", fmt.Sprintf("request %d (tag %d) was answered although the handler / session was never called for it", q.rid, q.tag))
		}
		switch {
		case q.flushedBy != nil && q.flushedBy.ackTaken, q.maybeFlushed:
			// flushed: zero or one reply, already checked for "after ack"
		case q.replies == 0:
			r.fail("c06.no-reply:"+q.class, fmt.Sprintf("request %d (tag %d, %s) never received a reply although every handler returned and every write succeeded", q.rid, q.tag, q.class))
		}
	}
}

// after a fault and once every handler has been released
func (r *runner) checkShutdown() {
	w := r.w
	w.mu.Lock()
	ret, stops := w.ret, w.stops
	var notc []int
	for _, iv := range w.invs {
		// in flight when serving ended: handed to the handler and never answered
		if iv.rid >= 0 && r.reqs[iv.rid].replies == 0 && iv.ctx.Err() == nil {
			notc = append(notc, iv.rid)
		}
	}
	w.mu.Unlock()
	if !ret {
		r.fail("c11.no-return:"+r.faultKind, "ServeConn has not returned although the process is quiescent, the fault ("+r.faultKind+") has struck and every handler has returned")
	}
	if ret && stops != 1 {
		r.fail(fmt.Sprintf("c11.stop-count:%d", stops), fmt.Sprintf("handler.Stop ran %d times", stops))
	}
	if !ret && stops != 0 {
		r.fail("c11.stop-before-return", "handler.Stop ran but ServeConn did not return")
	}
	if ret && len(notc) > 0 {
		r.fail("c11.handler-not-cancelled", fmt.Sprintf("contexts of in-flight requests %v were not cancelled by the shutdown", notc))
	}
}

// teardown: make every goroutine of this run able to exit
func (r *runner) teardown() {
	w := r.w
	w.cancel()
	w.cn.setGated(false)
	w.cn.releaseWrite(errPipe)
	w.cn.failRead(io.EOF)
	w.mu.Lock()
	for _, iv := range w.invs {
		select {
		case iv.gate <- hresult{err: errors.New("teardown")}:
		default:
		}
	}
	w.mu.Unlock()
	waitQuiet(5 * time.Second)
}

func (r *runner) caseSexp() sx.S {
	g := 1
	if r.gated {
		g = 0
	}
	items := []sx.S{sx.Sym("serve"), sx.I(int64(g))}
	items = append(items, r.steps...)
	return sx.List(items)
}

func descr(qs []*req) string {
	s := ""
	for _, q := range qs {
		s += fmt.Sprintf("[rid=%d class=%s disp=%v rel=%v replies=%d flush=%v]", q.rid, q.class, q.dispatched, q.released, q.replies, q.flush)
	}
	return s
}

// ---- long histories on one connection

// bulk sends n filler requests in ONE batch (no quiescence wait in between) on tags tag0 + (i mod ntags);
// the handler answers each at once.  The harness itself checks that every filler was dispatched exactly
// once with its message and answered exactly once with its own tag and result; the step's observation
// for the model is empty (see Run/RunC06.v, (bulk ...)).
func (r *runner) bulk(n int, tag0 uint16, ntags int) {
	w := r.w
	rid0 := len(r.reqs)
	replyOf := make(map[string]*req, n)
	buf := make([]byte, 0, n*16)
	w.mu.Lock()
	for i := 0; i < n; i++ {
		rid := rid0 + i
		msg := p9p.MessageTclunk{Fid: p9p.Fid(rid)}
		res := p9p.MessageRwrite{Count: uint32(rid)}
		q := &req{rid: rid, tag: tag0 + uint16(i%ntags), class: "normal", payload: payloadOf(msg), filler: true,
			released: true, resBytes: payloadOf(res)}
		r.reqs = append(r.reqs, q)
		w.sent[string(q.payload)] = rid
		w.filler[string(q.payload)] = res
		replyOf[string(q.resBytes)] = q
		buf = append(buf, frameBytes(q.tag, msg)...)
	}
	w.mu.Unlock()
	r.nFillers += n
	w.cn.feed(buf)
	action := sx.L(sx.Sym("bulk"), sx.I(int64(n)), sx.I(int64(rid0)), sx.U(uint64(tag0)), sx.I(int64(ntags)))
	if !waitQuiet(10 * time.Minute) {
		r.hang = true
		r.fail("serve.no-quiescence:bulk", "the process did not become quiescent within 10 min after a batch of requests")
	}
	w.mu.Lock()
	items := append([]item{}, w.items[r.cursor:]...)
	r.cursor = len(w.items)
	w.mu.Unlock()
	for _, it := range items {
		switch it.kind {
		case itDisp:
			if it.rid >= rid0 && it.rid < rid0+n {
				r.reqs[it.rid].dispCount++
				r.reqs[it.rid].dispatched = true
			} else {
				r.fail("c06.bulk-foreign-dispatch", fmt.Sprintf("request %d was dispatched during a batch it does not belong to", it.rid))
			}
		case itTake:
			q := replyOf[string(it.payload)]
			if q == nil || q.tag != it.tag {
				r.fail("c06.reply-unattributable", fmt.Sprintf("batch: frame tag=%d payload=%x is not the result of a request with that tag", it.tag, it.payload))
				continue
			}
			q.replies++
		case itStop, itRet:
			r.fail("c11.return-without-fault", "ServeConn returned during a fault-free batch")
		}
	}
	for i := 0; i < n; i++ {
		q := r.reqs[rid0+i]
		switch {
		case q.dispCount == 0:
			r.fail("c06.not-dispatched", fmt.Sprintf("batch request %d (tag %d) was not handed to the handler", q.rid, q.tag))
		case q.dispCount > 1:
			r.fail("c06.dispatched-twice", fmt.Sprintf("batch request %d was handed to the handler %d times", q.rid, q.dispCount))
		}
		switch {
		case q.replies == 0:
			r.fail("c06.no-reply:filler", fmt.Sprintf("batch request %d (tag %d) never received its reply", q.rid, q.tag))
		case q.replies > 1:
			r.fail("c06.second-reply", fmt.Sprintf("batch request %d (tag %d) was answered %d times", q.rid, q.tag, q.replies))
		}
	}
	obs := sx.L(sx.Sym("obs"), sx.List(nil), sx.List(nil), sx.List(nil), sx.I(0))
	r.steps = append(r.steps, sx.L(action, obs))
	r.label = append(r.label, "bulk")
}

// finishMany releases several held handlers at once (one (multi (fin ...) ...) step)
func (r *runner) finishMany(qs []*req) {
	var fins []sx.S
	type rel struct {
		iv  *inv
		res hresult
	}
	var rels []rel
	for _, q := range qs {
		iv := r.w.byRid[q.rid]
		if iv == nil || q.released {
			continue
		}
		res, s, pb := r.newResultFor(q, false)
		q.released = true
		q.resBytes = pb
		if iv.ctx.Err() != nil {
			r.nLateFin++
		}
		fins = append(fins, sx.L(sx.Sym("fin"), sx.I(int64(q.rid)), s))
		rels = append(rels, rel{iv, res})
	}
	if len(fins) == 0 {
		return
	}
	for _, x := range rels {
		x.iv.gate <- x.res
	}
	r.observe(sx.List(append([]sx.S{sx.Sym("multi")}, fins...)), "fin-many", nil)
}

// sendKind sends a request of the given session kind on the tag (sess mode)
func (r *runner) sendKind(tag uint16, kind int) {
	st, _ := r.classify(tag)
	class := map[string]string{"free": "normal", "held": "dup", "grey": "grey"}[st]
	exact := !r.faulted && (!r.gated || (!r.w.cn.writePending() && r.unprocessed() == 0))
	if !exact {
		class = "grey"
	}
	r.sendMsg(tag, false, 0, class, nil, false, r.newSessRequestMsg(len(r.reqs), kind))
}
