package main

// sess mode: ServeConn serves p9p.SSession(S) with a scripted Session S instead of the gate Handler,
// so that sessionHandler.Handle (ssesssion.go: the message -> Session-method table, the Tread buffer,
// the contexts it hands on) is part of what is exercised.  A call of S is what a Handle invocation is
// in gate mode: it is recorded with the T-message RECONSTRUCTED from the method and its arguments (the
// Handle table composed with its inverse must be the identity) and with the context THE SESSION
// received; it returns when the schedule releases it, with the scripted values; the reply the property
// prescribes is the R-message built from those values.

import (
	"context"
	"fmt"
	"time"

	p9p "github.com/frobnitzem/go-p9p"

	"verifharness/internal/prng"
	"verifharness/internal/sx"
)

// what a Session method returns (the fields its signature has)
type sret struct {
	qid    p9p.Qid
	qids   []p9p.Qid
	n      int
	iounit uint32
	dir    p9p.Dir
}

type scriptSession struct{ w *world }

func (s *scriptSession) call(ctx context.Context, msg p9p.Message) hresult {
	iv := s.w.enter(ctx, msg, payloadOf(msg))
	return <-iv.gate
}

// the bytes a read of request rid delivers: distinct per request and per position
func readPattern(fid p9p.Fid, offset int64, n int) []byte {
	b := make([]byte, n)
	for i := range b {
		b[i] = byte(uint32(fid)*31 + uint32(offset)*17 + uint32(i)*7 + 1)
	}
	return b
}

func (s *scriptSession) Auth(ctx context.Context, afid p9p.Fid, uname, aname string) (p9p.Qid, error) {
	r := s.call(ctx, p9p.MessageTauth{Afid: afid, Uname: uname, Aname: aname})
	return r.s.qid, r.err
}
func (s *scriptSession) Attach(ctx context.Context, fid, afid p9p.Fid, uname, aname string) (p9p.Qid, error) {
	r := s.call(ctx, p9p.MessageTattach{Fid: fid, Afid: afid, Uname: uname, Aname: aname})
	return r.s.qid, r.err
}
func (s *scriptSession) Clunk(ctx context.Context, fid p9p.Fid) error {
	return s.call(ctx, p9p.MessageTclunk{Fid: fid}).err
}
func (s *scriptSession) Remove(ctx context.Context, fid p9p.Fid) error {
	return s.call(ctx, p9p.MessageTremove{Fid: fid}).err
}
func (s *scriptSession) Walk(ctx context.Context, fid p9p.Fid, newfid p9p.Fid, names ...string) ([]p9p.Qid, error) {
	r := s.call(ctx, p9p.MessageTwalk{Fid: fid, Newfid: newfid, Wnames: names})
	return r.s.qids, r.err
}
func (s *scriptSession) Read(ctx context.Context, fid p9p.Fid, p []byte, offset int64) (int, error) {
	// the data is in the caller's buffer from the start of the call (as with a file system that reads
	// first and is slow to return)
	copy(p, readPattern(fid, offset, len(p)))
	r := s.call(ctx, p9p.MessageTread{Fid: fid, Offset: uint64(offset), Count: uint32(len(p))})
	return r.s.n, r.err
}
func (s *scriptSession) Write(ctx context.Context, fid p9p.Fid, p []byte, offset int64) (int, error) {
	r := s.call(ctx, p9p.MessageTwrite{Fid: fid, Offset: uint64(offset), Data: append([]byte{}, p...)})
	return r.s.n, r.err
}
func (s *scriptSession) Open(ctx context.Context, fid p9p.Fid, mode p9p.Flag) (p9p.Qid, uint32, error) {
	r := s.call(ctx, p9p.MessageTopen{Fid: fid, Mode: mode})
	return r.s.qid, r.s.iounit, r.err
}
func (s *scriptSession) Create(ctx context.Context, parent p9p.Fid, name string, perm uint32, mode p9p.Flag) (p9p.Qid, uint32, error) {
	r := s.call(ctx, p9p.MessageTcreate{Fid: parent, Name: name, Perm: perm, Mode: mode})
	return r.s.qid, r.s.iounit, r.err
}
func (s *scriptSession) Stat(ctx context.Context, fid p9p.Fid) (p9p.Dir, error) {
	r := s.call(ctx, p9p.MessageTstat{Fid: fid})
	return r.s.dir, r.err
}
func (s *scriptSession) WStat(ctx context.Context, fid p9p.Fid, dir p9p.Dir) error {
	return s.call(ctx, p9p.MessageTwstat{Fid: fid, Stat: dir}).err
}
func (s *scriptSession) Version() (int, string) { return 65536, "9P2000" }
func (s *scriptSession) Stop(err error) error   { return s.w.stop(err) }

func someDir(n uint64) p9p.Dir {
	return p9p.Dir{Type: uint16(n), Dev: uint32(n >> 3), Qid: p9p.Qid{Type: p9p.QTFILE, Version: 1, Path: n}, Mode: 0o644,
		AccessTime: time.Unix(int64(1000+n), 0), ModTime: time.Unix(int64(2000+n), 0), Length: n * 3,
		Name: fmt.Sprintf("f%d", n), UID: "u", GID: "g"}
}

// the 11 message kinds sessionHandler.Handle dispatches to the session
func (r *runner) newSessRequestMsg(rid int, kind int) p9p.Message {
	f := p9p.Fid(rid)
	g := r.rng
	switch kind % 11 {
	case 0:
		return p9p.MessageTclunk{Fid: f}
	case 1:
		// every 4th read asks for zero bytes: the session must still be asked (it may answer with an
		// error: unknown fid, bad offset ...)
		count := uint32(1 + g.Intn(96))
		if g.Intn(4) == 0 {
			count = 0
		}
		return p9p.MessageTread{Fid: f, Offset: uint64(g.Intn(1 << 20)), Count: count}
	case 2:
		return p9p.MessageTwrite{Fid: f, Offset: g.U64() >> uint(1+g.Intn(63)), Data: g.Bytes(g.Intn(40))}
	case 3:
		n := g.Intn(4)
		names := make([]string, n)
		for i := range names {
			names[i] = fmt.Sprintf("n%d", g.Intn(100))
		}
		return p9p.MessageTwalk{Fid: f, Newfid: p9p.Fid(g.Intn(1 << 16)), Wnames: names}
	case 4:
		return p9p.MessageTopen{Fid: f, Mode: p9p.Flag(g.Intn(4))}
	case 5:
		return p9p.MessageTstat{Fid: f}
	case 6:
		return p9p.MessageTremove{Fid: f}
	case 7:
		return p9p.MessageTattach{Fid: f, Afid: p9p.NOFID, Uname: "u", Aname: string(g.Bytes(g.Intn(5)))}
	case 8:
		return p9p.MessageTauth{Afid: f, Uname: "user", Aname: ""}
	case 9:
		return p9p.MessageTcreate{Fid: f, Name: fmt.Sprintf("c%d", g.Intn(1000)), Perm: uint32(g.U64()), Mode: p9p.Flag(g.Intn(4))}
	default:
		return p9p.MessageTwstat{Fid: f, Stat: someDir(uint64(rid))}
	}
}

// the values the Session method returns for request q, and the reply the property prescribes for them
func (r *runner) newSessResult(q *req, honourCancel bool) (hresult, sx.S, []byte) {
	g := r.rng
	degenerate := false // zero-count read, zero-length write, walk without names: mostly answered by an error
	switch t := q.msg.(type) {
	case p9p.MessageTread:
		degenerate = t.Count == 0
	case p9p.MessageTwrite:
		degenerate = len(t.Data) == 0
	case p9p.MessageTwalk:
		degenerate = len(t.Wnames) == 0
	}
	if honourCancel || g.Intn(10) >= 6 || (degenerate && g.Intn(4) != 0) {
		e, s, pb := r.newErr(honourCancel)
		return hresult{err: e}, s, pb
	}
	r.nonce++
	n := r.nonce
	var v sret
	var m p9p.Message
	switch t := q.msg.(type) {
	case p9p.MessageTauth:
		v.qid = p9p.Qid{Type: p9p.QTAUTH, Path: n}
		m = p9p.MessageRauth{Qid: v.qid}
	case p9p.MessageTattach:
		v.qid = p9p.Qid{Type: p9p.QTDIR, Path: n}
		m = p9p.MessageRattach{Qid: v.qid}
	case p9p.MessageTclunk:
		m = p9p.MessageRclunk{}
	case p9p.MessageTremove:
		m = p9p.MessageRremove{}
	case p9p.MessageTwalk:
		for i := 0; i < g.Intn(len(t.Wnames)+1); i++ {
			v.qids = append(v.qids, p9p.Qid{Type: p9p.QTDIR, Version: uint32(i), Path: n + uint64(i)})
		}
		m = p9p.MessageRwalk{Qids: v.qids}
	case p9p.MessageTread:
		v.n = g.Intn(int(t.Count) + 1)
		m = p9p.MessageRread{Data: readPattern(t.Fid, int64(t.Offset), int(t.Count))[:v.n]}
	case p9p.MessageTwrite:
		v.n = g.Intn(len(t.Data) + 1)
		m = p9p.MessageRwrite{Count: uint32(v.n)}
	case p9p.MessageTopen:
		v.qid, v.iounit = p9p.Qid{Path: n}, uint32(g.Intn(1<<20))
		m = p9p.MessageRopen{Qid: v.qid, IOUnit: v.iounit}
	case p9p.MessageTcreate:
		v.qid, v.iounit = p9p.Qid{Path: n, Version: 7}, uint32(g.Intn(1<<20))
		m = p9p.MessageRcreate{Qid: v.qid, IOUnit: v.iounit}
	case p9p.MessageTstat:
		v.dir = someDir(n)
		m = p9p.MessageRstat{Stat: v.dir}
	case p9p.MessageTwstat:
		m = p9p.MessageRwstat{}
	default:
		panic(fmt.Sprintf("sess mode: unexpected request %T", q.msg))
	}
	pb := payloadOf(m)
	return hresult{s: v}, sx.L(sx.Sym("msg"), sx.B(pb)), pb
}

// ---------------------------------------------------------------- directed families

// Pipelined reads with several Rread replies alive at once.  The writer is held inside conn.Write and the
// loop is blocked handing it a second frame while m reads return (their goroutines wait to deliver) and m
// more Treads arrive; every released write then lets the loop choose between a waiting completion and the
// next arrival, so later reads are dispatched while earlier replies are still unencoded.  Every reply must
// carry its own read's data, byte for byte.
func runReadOverlap(rng *prng.R) *runner {
	r := start(rng, true, nil, true)
	r.profile = "sess-read-overlap"
	r.maxDepth = 128
	for round := 0; round < 4 && !r.hang && len(r.fails) == 0; round++ {
		// more reads in flight at once than any free list of buffers is likely to hold (so that a
		// buffer handed back is the next one handed out), all of one size
		count := uint32(8 + rng.Intn(120))
		read := func() *req {
			rid := len(r.reqs)
			r.sendMsg(r.freeTag(), false, 0, "grey", nil, false,
				p9p.MessageTread{Fid: p9p.Fid(rid), Offset: uint64(rng.Intn(1 << 20)), Count: count})
			return r.reqs[rid]
		}
		var held []*req
		for i := 0; i < 34+rng.Intn(8); i++ {
			held = append(held, read())
		}
		// two immediate replies: the first occupies the writer, the second blocks the loop
		r.sendOn(r.freeTag(), true, uint16(30000+rng.Intn(1000)))
		r.sendOn(r.freeTag(), true, uint16(31000+rng.Intn(1000)))
		m := 2 + rng.Intn(6)
		for _, i := range perm(rng, len(held))[:m] {
			if q := held[i]; q.dispatched && !q.released {
				r.finish(q, false) // Session.Read returns; the goroutine waits to hand the completion over
			}
		}
		for i := 0; i < m+2; i++ {
			read() // queued behind the blocked loop
		}
		for i := 0; i < 4*m+16 && !r.hang && r.w.cn.writePending(); i++ {
			r.wok()
		}
		r.drain()
	}
	r.finishRun()
	return r
}

// every message kind blocked inside the session when the fault strikes
func runSessAllKindsFault(rng *prng.R, fault int) *runner {
	gated := fault == 3
	r := start(rng, gated, nil, true)
	r.profile = "sess-all-kinds-in-flight"
	r.maxDepth = 64
	for k := 0; k < 11 && !r.hang; k++ {
		r.sendKind(r.freeTag(), k)
	}
	for k := 0; k < 3 && !r.hang; k++ { // a few more, in random kinds
		r.sendKind(r.freeTag(), rng.Intn(11))
	}
	switch fault {
	case 0:
		r.ctxCancel()
	case 1:
		r.connerr(true)
	case 2:
		r.connerr(false)
	default:
		r.sendOn(r.freeTag(), true, 29999) // an immediate reply: the writer is inside conn.Write
		if r.w.cn.writePending() {
			r.wfail()
		}
	}
	r.finishRun()
	return r
}

// many requests outstanding at once (the protocol allows 65535), completed in a scripted order
func runDeep(rng *prng.R, depth int, sess bool) *runner {
	r := start(rng, false, nil, sess)
	r.profile = fmt.Sprintf("deep-%d", depth/100*100)
	r.maxDepth = depth
	var qs []*req
	for i := 0; i < depth && !r.hang; i++ {
		tag := uint16(100 + i)
		if sess {
			r.sendKind(tag, rng.Intn(11))
		} else {
			r.sendOn(tag, false, 0)
		}
		qs = append(qs, r.reqs[len(r.reqs)-1])
		if i > 0 && rng.Intn(16) == 0 { // and some complete in between
			q := qs[rng.Intn(len(qs))]
			if q.dispatched && !q.released {
				r.finish(q, false)
			}
		}
	}
	for _, i := range perm(rng, len(qs)) {
		if q := qs[i]; !r.hang && q.dispatched && !q.released {
			r.finish(q, false)
		}
	}
	r.finishRun()
	return r
}

func perm(rng *prng.R, n int) []int {
	p := make([]int, n)
	for i := range p {
		p[i] = i
	}
	for i := n - 1; i > 0; i-- {
		j := rng.Intn(i + 1)
		p[i], p[j] = p[j], p[i]
	}
	return p
}
