package main

// The controlled environment of one ServeConn run: a scripted in-memory
// net.Conn (bytes are fed by the schedule, writes can be gated and made to
// fail, the read side can be made to fail), a gate Handler that records every
// invocation and returns only when the schedule releases it, an observation
// log, and a timing-free quiescence detector (every other goroutine of the
// process is parked in a blocking operation).

import (
	"bytes"
	"context"
	"encoding/binary"
	"errors"
	"fmt"
	"io"
	"net"
	"runtime"
	"sync"
	"time"

	p9p "github.com/frobnitzem/go-p9p"
)

// ---------------------------------------------------------------- observation log

const (
	itDisp = iota
	itTake
	itStop
	itRet
)

type item struct {
	kind    int
	rid     int    // itDisp: request id (-1 unknown message)
	tag     uint16 // itTake
	payload []byte // itDisp: type+body as received; itTake: type+body as written
	canc    []int  // itTake: rids whose ctx was Done when Write was called
}

type inv struct {
	rid      int
	ctx      context.Context
	msg      p9p.Message
	payload  []byte
	gate     chan hresult
	released bool
	cancSeen bool
	res      hresult // fs mode: what the real handler returned
	done     bool
	doneSeen bool
}

type hresult struct {
	msg p9p.Message
	err error
	s   sret // sess mode: what the scripted Session's method returns
}

type world struct {
	mu        sync.Mutex
	items     []item
	invs      []*inv                 // in invocation order
	byRid     map[int]*inv           // rid -> invocation
	sent      map[string]int         // request payload -> rid
	filler    map[string]p9p.Message // request payload -> the result an auto-completing handler returns at once
	stops     int
	ret       bool
	retErr    error
	anomalies []string

	cn     *sconn
	ctx    context.Context
	cancel context.CancelFunc
	inner  p9p.Handler // optional: a real handler run after the gate opens (fs mode)
}

func (w *world) cancelledLocked() []int {
	var out []int
	for _, iv := range w.invs {
		if iv.ctx.Err() != nil && iv.rid >= 0 {
			out = append(out, iv.rid)
		}
	}
	return out
}

// ---------------------------------------------------------------- handler

type gateHandler struct{ w *world }

func payloadOf(msg p9p.Message) []byte {
	b, err := p9p.NewCodec().Marshal(&p9p.Fcall{Type: msg.Type(), Tag: 0, Message: msg})
	if err != nil || len(b) < 3 {
		return []byte{0xff}
	}
	return append([]byte{b[0]}, b[3:]...)
}

// enter records one invocation (of Handler.Handle, or in sess mode of a Session method, with the
// context THAT call received) and returns its record; the caller then waits on the gate
func (w *world) enter(ctx context.Context, msg p9p.Message, pl []byte) *inv {
	iv := &inv{ctx: ctx, msg: msg, payload: pl, gate: make(chan hresult, 1), rid: -1}
	w.mu.Lock()
	if rid, ok := w.sent[string(pl)]; ok {
		iv.rid = rid
		if _, dup := w.byRid[rid]; dup {
			w.anomalies = append(w.anomalies, "dispatched-twice")
		}
		w.byRid[rid] = iv
	} else {
		w.anomalies = append(w.anomalies, "dispatched-unsent-message")
	}
	w.invs = append(w.invs, iv)
	w.items = append(w.items, item{kind: itDisp, rid: iv.rid, payload: pl})
	w.mu.Unlock()
	return iv
}

func (h gateHandler) Handle(ctx context.Context, msg p9p.Message) (p9p.Message, error) {
	w := h.w
	pl := payloadOf(msg)
	w.mu.Lock()
	if res, ok := w.filler[string(pl)]; ok {
		// a filler request of a (bulk ...) step: answered immediately, not held, context not tracked
		w.items = append(w.items, item{kind: itDisp, rid: w.sent[string(pl)], payload: pl})
		w.mu.Unlock()
		return res, nil
	}
	w.mu.Unlock()
	iv := w.enter(ctx, msg, pl)
	r := <-iv.gate
	if w.inner != nil {
		m, e := w.inner.Handle(ctx, msg)
		w.mu.Lock()
		iv.res, iv.done = hresult{msg: m, err: e}, true
		w.mu.Unlock()
		return m, e
	}
	return r.msg, r.err
}

func (h gateHandler) Stop(err error) error { return h.w.stop(err) }

func (w *world) stop(err error) error {
	w.mu.Lock()
	w.stops++
	w.items = append(w.items, item{kind: itStop})
	w.mu.Unlock()
	if w.inner != nil {
		return w.inner.Stop(err)
	}
	return err
}

// ---------------------------------------------------------------- conn

type sconn struct {
	w          *world
	mu         sync.Mutex
	rcond      *sync.Cond
	wcond      *sync.Cond
	in         []byte
	rerr       error
	rtransient []error // errors each returned by one Read (when no bytes are waiting)
	gated      bool
	// one write in progress at most (WriteFcall is not called concurrently)
	wpending  bool
	wreleased bool
	wres      error
	wbuf      []byte // bytes passed to Write not yet forming a whole frame
	nwrites   int
}

func newConn(w *world) *sconn {
	c := &sconn{w: w}
	c.rcond = sync.NewCond(&c.mu)
	c.wcond = sync.NewCond(&c.mu)
	return c
}

func (c *sconn) Read(p []byte) (int, error) {
	c.mu.Lock()
	defer c.mu.Unlock()
	for len(c.in) == 0 && c.rerr == nil && len(c.rtransient) == 0 {
		c.rcond.Wait()
	}
	if len(c.in) == 0 && len(c.rtransient) > 0 {
		// an error for this Read only; the conn carries on delivering afterwards
		err := c.rtransient[0]
		c.rtransient = c.rtransient[1:]
		return 0, err
	}
	if len(c.in) > 0 {
		n := copy(p, c.in)
		c.in = c.in[n:]
		return n, nil
	}
	return 0, c.rerr
}

func (c *sconn) feed(b []byte) {
	c.mu.Lock()
	c.in = append(c.in, b...)
	c.mu.Unlock()
	c.rcond.Broadcast()
}

func (c *sconn) failReadOnce(err error, times int) {
	c.mu.Lock()
	for i := 0; i < times; i++ {
		c.rtransient = append(c.rtransient, err)
	}
	c.mu.Unlock()
	c.rcond.Broadcast()
}

func (c *sconn) failRead(err error) {
	c.mu.Lock()
	if c.rerr == nil {
		c.rerr = err
	}
	c.mu.Unlock()
	c.rcond.Broadcast()
}

func (c *sconn) Write(p []byte) (int, error) {
	// log the frame(s) this call completes
	c.mu.Lock()
	c.nwrites++
	c.wbuf = append(c.wbuf, p...)
	var frames [][]byte
	for len(c.wbuf) >= 4 {
		sz := int(binary.LittleEndian.Uint32(c.wbuf))
		if sz < 7 || len(c.wbuf) < sz {
			break
		}
		frames = append(frames, append([]byte{}, c.wbuf[:sz]...))
		c.wbuf = c.wbuf[sz:]
	}
	split := len(c.wbuf) != 0
	c.mu.Unlock()
	w := c.w
	w.mu.Lock()
	if split {
		w.anomalies = append(w.anomalies, "frame-split-over-writes")
	}
	canc := w.cancelledLocked()
	for _, f := range frames {
		w.items = append(w.items, item{kind: itTake, tag: binary.LittleEndian.Uint16(f[5:7]),
			payload: append([]byte{f[4]}, f[7:]...), canc: canc})
	}
	w.mu.Unlock()

	c.mu.Lock()
	defer c.mu.Unlock()
	if !c.gated {
		return len(p), nil
	}
	c.wpending = true
	for !c.wreleased {
		c.wcond.Wait()
	}
	c.wpending, c.wreleased = false, false
	if c.wres != nil {
		return 0, c.wres
	}
	return len(p), nil
}

func (c *sconn) writePending() bool {
	c.mu.Lock()
	defer c.mu.Unlock()
	return c.wpending && !c.wreleased
}

func (c *sconn) releaseWrite(err error) {
	c.mu.Lock()
	c.wres = err
	c.wreleased = true
	c.mu.Unlock()
	c.wcond.Broadcast()
}

func (c *sconn) setGated(g bool) {
	c.mu.Lock()
	c.gated = g
	c.mu.Unlock()
}

type addr struct{}

func (addr) Network() string { return "mem" }
func (addr) String() string  { return "mem" }

func (c *sconn) Close() error                       { c.failRead(io.EOF); return nil }
func (c *sconn) LocalAddr() net.Addr                { return addr{} }
func (c *sconn) RemoteAddr() net.Addr               { return addr{} }
func (c *sconn) SetDeadline(t time.Time) error      { return nil }
func (c *sconn) SetReadDeadline(t time.Time) error  { return nil }
func (c *sconn) SetWriteDeadline(t time.Time) error { return nil }

// timeoutErr is a net.Error with Timeout() and Temporary() true (what a write deadline produces)
type timeoutErr struct{}

func (timeoutErr) Error() string   { return "i/o timeout" }
func (timeoutErr) Timeout() bool   { return true }
func (timeoutErr) Temporary() bool { return true }

// netErr is a net.Error with the given answers
type netErr struct{ timeout, temporary bool }

func (e netErr) Error() string {
	return fmt.Sprintf("net error (timeout=%v temporary=%v)", e.timeout, e.temporary)
}
func (e netErr) Timeout() bool   { return e.timeout }
func (e netErr) Temporary() bool { return e.temporary }

var errReset = errors.New("connection reset by peer")
var errPipe = errors.New("broken pipe")

// ---------------------------------------------------------------- quiescence

var stackBuf = make([]byte, 1<<20)

// othersParked reports whether every goroutine except the caller is parked in
// a blocking operation (channel, select, cond, semaphore).  It uses the
// goroutine states of a stop-the-world stack dump, so it does not depend on
// timing: if it says true, nothing in the process can move until the caller
// acts (no timers are pending in the harness or in the code under test except
// the 1 s negotiation time-out, whose firing changes nothing).
func othersParked() bool {
	n := runtime.Stack(stackBuf, true)
	b := stackBuf[:n]
	first := true
	for len(b) > 0 {
		i := bytes.Index(b, []byte("goroutine "))
		if i < 0 {
			break
		}
		if i > 0 && b[i-1] != '\n' {
			b = b[i+10:]
			continue
		}
		b = b[i:]
		lb := bytes.IndexByte(b, '[')
		nl := bytes.IndexByte(b, '\n')
		if lb < 0 || nl < 0 || lb > nl {
			b = b[10:]
			continue
		}
		rb := bytes.IndexByte(b[lb:], ']')
		state := b[lb+1 : lb+rb]
		if c := bytes.IndexByte(state, ','); c >= 0 {
			state = state[:c]
		}
		b = b[nl:]
		if first {
			first = false
			continue
		}
		switch string(state) {
		case "chan receive", "chan send", "select", "sync.Cond.Wait",
			"sync.Mutex.Lock", "sync.RWMutex.Lock", "sync.RWMutex.RLock", "sync.WaitGroup.Wait",
			"select (no cases)", "chan receive (nil chan)", "chan send (nil chan)":
		case "semacquire":
			// sync.WaitGroup.Wait parks with this reason, but so does runtime-internal waiting (a
			// goroutine starting a GC cycle waits for the world semaphore this very dump holds)
			end := bytes.Index(b, []byte("\n\n"))
			if end < 0 {
				end = len(b)
			}
			if !bytes.Contains(b[:end], []byte("sync.(*WaitGroup).Wait")) {
				return false
			}
		default:
			return false
		}
	}
	return true
}

// waitQuiet waits until the process is quiescent; false when it is not within
// max (generous: only a livelock or a machine stall can make it false).
func waitQuiet(max time.Duration) bool {
	deadline := time.Now().Add(max)
	spins := 0
	for {
		runtime.Gosched()
		if othersParked() {
			runtime.Gosched()
			if othersParked() {
				return true
			}
		}
		spins++
		if spins > 50 {
			time.Sleep(50 * time.Microsecond)
		}
		if spins%64 == 0 && time.Now().After(deadline) {
			return false
		}
	}
}
