// mutate: a small syntactic mutation generator for the go-p9p sources, used to look for blind spots
// of the checks (bin/mutants).  `mutate -file F -list` prints the number of mutation sites;
// `mutate -file F -n K -out G` writes F with its K-th site mutated to G and prints a one-line
// description.  Operators: comparison and arithmetic operator swaps, && <-> ||, integer literal +1,
// negated if-condition, deleted expression/assignment/inc-dec statement, dropped `else` branch.
package main

import (
	"bytes"
	"flag"
	"fmt"
	"go/ast"
	"go/parser"
	"go/printer"
	"go/token"
	"os"
	"strconv"
)

type site struct {
	desc  string
	apply func()
}

func main() {
	file := flag.String("file", "", "Go source file")
	list := flag.Bool("list", false, "print the number of sites")
	n := flag.Int("n", -1, "site to mutate")
	out := flag.String("out", "", "output file")
	flag.Parse()
	fset := token.NewFileSet()
	f, err := parser.ParseFile(fset, *file, nil, parser.ParseComments)
	if err != nil {
		fmt.Fprintln(os.Stderr, err)
		os.Exit(2)
	}
	var sites []site
	pos := func(p token.Pos) string { q := fset.Position(p); return fmt.Sprintf("%s:%d", q.Filename, q.Line) }
	swap := map[token.Token][]token.Token{
		token.LSS: {token.LEQ, token.GEQ}, token.LEQ: {token.LSS, token.GTR}, token.GTR: {token.GEQ, token.LEQ}, token.GEQ: {token.GTR, token.LSS},
		token.EQL: {token.NEQ}, token.NEQ: {token.EQL}, token.ADD: {token.SUB}, token.SUB: {token.ADD},
		token.LAND: {token.LOR}, token.LOR: {token.LAND}, token.AND: {token.OR}, token.SHL: {token.SHR},
	}
	ast.Inspect(f, func(nd ast.Node) bool {
		switch x := nd.(type) {
		case *ast.BinaryExpr:
			for _, t := range swap[x.Op] {
				x, old, t := x, x.Op, t
				sites = append(sites, site{fmt.Sprintf("%s: %s -> %s", pos(x.OpPos), old, t), func() { x.Op = t }})
			}
		case *ast.BasicLit:
			if x.Kind == token.INT {
				if v, err := strconv.ParseInt(x.Value, 0, 64); err == nil && v < 1<<40 {
					x, v := x, v
					sites = append(sites, site{fmt.Sprintf("%s: literal %s -> %d", pos(x.Pos()), x.Value, v+1), func() { x.Value = strconv.FormatInt(v+1, 10) }})
					if v > 0 {
						sites = append(sites, site{fmt.Sprintf("%s: literal %s -> %d", pos(x.Pos()), x.Value, v-1), func() { x.Value = strconv.FormatInt(v-1, 10) }})
					}
				}
			}
		case *ast.IfStmt:
			x0 := x
			sites = append(sites, site{fmt.Sprintf("%s: if condition negated", pos(x.Pos())), func() { x0.Cond = &ast.UnaryExpr{Op: token.NOT, X: &ast.ParenExpr{X: x0.Cond}} }})
			if x.Else != nil {
				sites = append(sites, site{fmt.Sprintf("%s: else branch dropped", pos(x.Pos())), func() { x0.Else = nil }})
			}
		case *ast.BlockStmt:
			for i, st := range x.List {
				switch st.(type) {
				case *ast.ExprStmt, *ast.IncDecStmt, *ast.DeferStmt:
				case *ast.AssignStmt:
					if st.(*ast.AssignStmt).Tok == token.DEFINE {
						continue
					}
				default:
					continue
				}
				x, i := x, i
				sites = append(sites, site{fmt.Sprintf("%s: statement deleted", pos(st.Pos())), func() { x.List = append(append([]ast.Stmt{}, x.List[:i]...), x.List[i+1:]...) }})
			}
		case *ast.CaseClause:
			for i, st := range x.Body {
				switch st.(type) {
				case *ast.ExprStmt, *ast.IncDecStmt:
				default:
					continue
				}
				x, i := x, i
				sites = append(sites, site{fmt.Sprintf("%s: statement deleted", pos(st.Pos())), func() { x.Body = append(append([]ast.Stmt{}, x.Body[:i]...), x.Body[i+1:]...) }})
			}
		}
		return true
	})
	if *list {
		fmt.Println(len(sites))
		return
	}
	if *n < 0 || *n >= len(sites) {
		fmt.Fprintln(os.Stderr, "no such site")
		os.Exit(2)
	}
	sites[*n].apply()
	var b bytes.Buffer
	if err := printer.Fprint(&b, fset, f); err != nil {
		fmt.Fprintln(os.Stderr, err)
		os.Exit(2)
	}
	if err := os.WriteFile(*out, b.Bytes(), 0o644); err != nil {
		fmt.Fprintln(os.Stderr, err)
		os.Exit(2)
	}
	fmt.Println(sites[*n].desc)
}
