(* Line I/O glue for the extracted models: reads "case<TAB>observed" (or just
   "case") lines on stdin, feeds the case text to Model.run_line as a list of
   character codes, prints the model's observation, one per line. *)
open Model

let rec pos_of_int i =
  if i = 1 then XH else if i land 1 = 1 then XI (pos_of_int (i lsr 1)) else XO (pos_of_int (i lsr 1))
let n_of_int i = if i = 0 then N0 else Npos (pos_of_int i)
let rec int_of_pos = function XH -> 1 | XO p -> 2 * int_of_pos p | XI p -> 2 * int_of_pos p + 1
let int_of_n = function N0 -> 0 | Npos p -> int_of_pos p

let table = Array.init 256 n_of_int

let chars_of_string s =
  let r = ref [] in
  for i = String.length s - 1 downto 0 do r := table.(Char.code s.[i]) :: !r done;
  !r

let () =
  let out = Buffer.create 65536 in
  (try
     while true do
       let line = input_line stdin in
       let case = match String.index_opt line '\t' with Some i -> String.sub line 0 i | None -> line in
       let res = run_line (chars_of_string case) in
       List.iter (fun n -> Buffer.add_char out (Char.chr ((int_of_n n) land 255))) res;
       Buffer.add_char out '\n';
       if Buffer.length out > 1_000_000 then (print_string (Buffer.contents out); Buffer.clear out)
     done
   with End_of_file -> ());
  print_string (Buffer.contents out)
